#!/bin/sh
# Build the harness and the repository's binaries offline, from files on disk only.
cd "$(dirname "$0")" || exit 1
VERIF_ROOT="$(pwd)"
CARGO_NET_OFFLINE=true; export CARGO_NET_OFFLINE
( cd engine && cargo build ) || exit 1
( cd /repo && CARGO_TARGET_DIR="$VERIF_ROOT/engine/target/repo-bins" cargo build --features cli,lsp --bins ) || exit 1
