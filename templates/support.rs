// Runner support module (compiled into every lab runner; not part of lelwel).
use std::cell::{Cell, RefCell};
use std::io::{BufRead, Write};
use std::rc::Rc;

pub struct FuelExhausted;
pub struct DepthExceeded;

thread_local! {
    pub static FUEL: Cell<u64> = const { Cell::new(0) };
    pub static TICKS: Cell<u64> = const { Cell::new(0) };
    pub static DEPTH: Cell<u64> = const { Cell::new(0) };
    pub static MAX_DEPTH: Cell<u64> = const { Cell::new(0) };
    pub static DEPTH_LIMIT: Cell<u64> = const { Cell::new(20000) };
}

#[inline(never)]
pub fn tick() {
    TICKS.with(|t| t.set(t.get() + 1));
    FUEL.with(|f| {
        let v = f.get();
        if v == 0 {
            std::panic::panic_any(FuelExhausted);
        }
        f.set(v - 1);
    });
}

pub struct Guard;
impl Drop for Guard {
    fn drop(&mut self) {
        DEPTH.with(|d| d.set(d.get() - 1));
    }
}
#[inline(never)]
pub fn enter() -> Guard {
    DEPTH.with(|d| {
        let v = d.get() + 1;
        d.set(v);
        MAX_DEPTH.with(|m| {
            if v > m.get() {
                m.set(v)
            }
        });
        if v > DEPTH_LIMIT.with(|l| l.get()) {
            d.set(v - 1);
            std::panic::panic_any(DepthExceeded);
        }
    });
    Guard
}

pub struct Req {
    pub gi: usize,
    pub entry: usize,
    pub seed: u64,
    pub enc: u8,
    pub pmode: u8,
    pub amode: u8,
    pub smode: u8,
    pub source: String,
}

#[derive(Default)]
pub struct Log {
    pub events: Vec<String>,
    pub pred_calls: u64,
    pub assert_calls: u64,
    pub diag_calls: u64,
    /// bytes of subtree dumps recorded by the created / deleted callbacks
    pub dump_bytes: u64,
}

#[derive(Clone, Default)]
pub struct Ctx {
    pub seed: u64,
    pub enc: u8,
    pub pmode: u8,
    pub amode: u8,
    pub smode: u8,
    pub log: Rc<RefCell<Log>>,
}

pub fn hash(seed: u64, parts: &[u64]) -> u64 {
    let mut x = seed ^ 0x9E37_79B9_7F4A_7C15;
    for t in parts {
        x = x.wrapping_add(*t).wrapping_mul(0xBF58_476D_1CE4_E5B9);
        x ^= x >> 30;
        x = x.wrapping_mul(0x94D0_49BB_1331_11EB);
        x ^= x >> 31;
    }
    x
}
pub fn str_hash(s: &str) -> u64 {
    let mut h: u64 = 0xcbf29ce484222325;
    for b in s.bytes() {
        h ^= b as u64;
        h = h.wrapping_mul(0x100000001b3);
    }
    h
}

pub fn esc(s: &str) -> String {
    let mut o = String::new();
    for c in s.chars() {
        match c {
            '"' => o.push_str("\\\""),
            '\\' => o.push_str("\\\\"),
            c if (c as u32) < 0x20 => o.push(' '),
            c => o.push(c),
        }
    }
    o
}

pub fn width(kind: usize, enc: u8) -> usize {
    if enc == 0 { 1 } else { 1 + (kind % 3) }
}

pub fn payload_status(e: &Box<dyn std::any::Any + Send>) -> String {
    if e.downcast_ref::<FuelExhausted>().is_some() {
        "fuel".to_string()
    } else if e.downcast_ref::<DepthExceeded>().is_some() {
        "depth".to_string()
    } else if let Some(s) = e.downcast_ref::<&str>() {
        format!("panic:{}", esc(s))
    } else if let Some(s) = e.downcast_ref::<String>() {
        format!("panic:{}", esc(s))
    } else {
        "panic:<non-string>".to_string()
    }
}

thread_local! {
    pub static PANIC_LOC: RefCell<String> = const { RefCell::new(String::new()) };
}

pub fn main_loop(dispatch: fn(&Req) -> String) {
    std::panic::set_hook(Box::new(|info| {
        let loc = info.location().map_or(String::new(), |l| format!("{}:{}", l.file(), l.line()));
        PANIC_LOC.with(|p| *p.borrow_mut() = loc);
    }));
    let h = std::thread::Builder::new()
        .stack_size(1 << 30)
        .spawn(move || {
            let stdin = std::io::stdin();
            let stdout = std::io::stdout();
            let mut out = stdout.lock();
            for line in stdin.lock().lines() {
                let line = line.unwrap();
                let mut it = line.splitn(8, ' ');
                let mut num = || it.next().unwrap().parse::<u64>().unwrap();
                let gi = num() as usize;
                let entry = num() as usize;
                let seed = num();
                let enc = num() as u8;
                let pmode = num() as u8;
                let amode = num() as u8;
                let smode = num() as u8;
                let source = it.next().unwrap_or("s:")[2..].to_string();
                let req = Req { gi, entry, seed, enc, pmode, amode, smode, source };
                FUEL.with(|f| f.set(1_000_000));
                TICKS.with(|t| t.set(0));
                DEPTH.with(|d| d.set(0));
                MAX_DEPTH.with(|d| d.set(0));
                let reply = dispatch(&req);
                out.write_all(reply.as_bytes()).unwrap();
                out.write_all(b"\n").unwrap();
                out.flush().unwrap();
            }
        })
        .unwrap();
    h.join().unwrap();
}
