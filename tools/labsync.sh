#!/bin/sh
# usage: tools/labsync.sh <slot>   refresh /tmp/slab/<slot>/verif from /verif (keeps its build cache
# and its repo worktree); prints the environment to use
L=/tmp/slab/$1
rsync -a --delete --exclude .git --exclude engine/target --exclude engine/fuzz/target --exclude engine/target-build.log --exclude replays/new --exclude evidence /verif/ "$L/verif/" || exit 2
sed -i "s#path = \"/repo\"#path = \"$L/repo\"#" "$L/verif/engine/core/Cargo.toml" "$L/verif/engine/vcheck/Cargo.toml"
echo "cd $L/verif && VERIF_REPO=$L/repo ./check <ID> quick"
