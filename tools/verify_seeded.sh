#!/bin/sh
# Independently confirm every seeded change in a scratch worktree (outside /repo and /verif):
#  (1) demo passes on the unchanged code, (2) with the patch the project's own test suite still
#  passes, (3) with the patch the demo fails. Writes seeded/<id>/verified.json. Removes the worktree.
cd "$(dirname "$0")/.." || exit 2
V="$PWD"
WT=/tmp/sv-worktree
export CARGO_NET_OFFLINE=true
git -C /repo worktree remove --force $WT 2>/dev/null
git -C /repo worktree add -q $WT HEAD || exit 2
run_demo() { # $1 = seeded dir ; returns demo exit status
  d="$V/$1/demo"
  cd $WT || return 99
  sub=$(ls -d "$d"/demo_*/ 2>/dev/null | head -1)
  if ls "$d"/tests/demo_*.rs >/dev/null 2>&1; then
    cp -r "$d"/tests/* tests/; t=$(basename "$d"/tests/demo_*.rs .rs)
    cargo test --offline --features cli,lsp --test "$t" >/tmp/sv-demo.log 2>&1; return $?
  elif ls "$d"/demo_*.rs >/dev/null 2>&1; then
    for f in "$d"/*; do case "$(basename "$f")" in README*|*.txt) ;; *) cp -r "$f" tests/ ;; esac; done
    t=$(basename "$d"/demo_*.rs .rs)
    cargo test --offline --features cli,lsp --test "$t" >/tmp/sv-demo.log 2>&1; return $?
  elif [ -n "$sub" ] && [ -f "$sub/run.sh" ]; then
    cp -r "$sub" "$WT/"; bash "$(basename "$sub")/run.sh" >/tmp/sv-demo.log 2>&1; return $?
  else
    s=$(ls "$d"/*.sh | head -1)
    if head -1 "$s" | grep -q bash; then bash "$s" "$WT" >/tmp/sv-demo.log 2>&1; else sh "$s" "$WT" >/tmp/sv-demo.log 2>&1; fi; return $?
  fi
}
cd "$V"
for dir in $(ls -d seeded/*/); do
  cd "$V"
  dir=${dir%/}
  [ -f "$dir/patch.diff" ] || continue
  if [ -f "$dir/verified.json" ] && [ -z "$FORCE" ]; then continue; fi
  git -C $WT checkout -q -- . ; git -C $WT clean -qfd >/dev/null 2>&1
  run_demo "$dir"; clean_rc=$?
  git -C $WT checkout -q -- . ; git -C $WT clean -qfd >/dev/null 2>&1
  git -C $WT apply "$V/$dir/patch.diff" || { echo "$dir: patch does not apply"; continue; }
  ( cd $WT && cargo test --workspace --no-fail-fast --offline > /tmp/sv-suite.log 2>&1 ); suite_rc=$?
  passed=$(grep -E "^test result" /tmp/sv-suite.log | awk '{p+=$4; f+=$6} END {print p" passed "f" failed"}')
  run_demo "$dir"; mut_rc=$?
  echo "$dir: demo on unchanged code exit=$clean_rc; suite with change exit=$suite_rc ($passed); demo with change exit=$mut_rc"
  printf '{"demo_on_unchanged_code_exit": %s, "suite_with_change_exit": %s, "suite_with_change": "%s", "demo_with_change_exit": %s, "confirmed": %s}\n' "$clean_rc" "$suite_rc" "$passed" "$mut_rc" "$( [ "$clean_rc" = 0 ] && [ "$suite_rc" = 0 ] && [ "$mut_rc" != 0 ] && echo true || echo false )" > "$V/$dir/verified.json"
done
cd "$V"
git -C /repo worktree remove --force $WT
rm -rf /tmp/sv-demo.log /tmp/sv-suite.log
