#!/bin/sh
# run every registered quick check once with the given seed; print exit status and duration
cd "$(dirname "$0")/.." || exit 2
seed="${1:-0}"
for id in $(python3 -c "import json;print(' '.join(c['property_id'] for c in json.load(open('MANIFEST.json'))['checks']))"); do
  s=$(date +%s)
  VERIF_SEED=$seed ./check $id quick > /tmp/allquick-$id-$seed.log 2>&1
  rc=$?
  e=$(date +%s)
  echo "seed=$seed $id exit=$rc $((e-s))s $(grep -c '^VIOLATION' /tmp/allquick-$id-$seed.log) violations"
done
