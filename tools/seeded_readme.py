#!/usr/bin/env python3
"""Generate seeded/README.md from seeded/*/meta.json, verified.json and seeded/results.json."""
import json, glob, os
root = os.path.join(os.path.dirname(__file__), '..', 'seeded')
res = json.load(open(os.path.join(root, 'results.json')))
out = ["# Seeded changes", "",
       "Each directory holds one change to 0x2a-42/lelwel written by an independent sub-agent that saw only the text of one property (never /verif): `patch.diff`, the agent's demonstration under `demo/`, its `meta.json`, and `verified.json` (our own confirmation in a scratch worktree: the demonstration passes on the unchanged code, the project's 59 tests still pass with the change, the demonstration fails with the change). None of these changes is ever committed to /repo; `tools/seedtest.sh seeded/<dir> <check>...` applies one, runs quick checks and undoes it.", "",
       "| change | property | what it does / needs | confirmed | caught by (quick tier) | not caught by |", "|---|---|---|---|---|---|"]
for d in sorted(glob.glob(os.path.join(root, '*/'))):
    name = os.path.basename(d.rstrip('/'))
    try:
        meta = json.load(open(os.path.join(d, 'meta.json')))
    except Exception:
        continue
    ver = {}
    if os.path.exists(os.path.join(d, 'verified.json')):
        ver = json.load(open(os.path.join(d, 'verified.json')))
    r = res.get(name, {})
    summ = (meta.get('summary', '')[:260] + ' NEEDS: ' + meta.get('needs', '')[:220]).replace('|', '\\|').replace('\n', ' ')
    out.append(f"| {name} | {meta.get('property','')} | {summ} | {ver.get('confirmed','?')} | {', '.join(r.get('caught', []))} | {', '.join(r.get('missed', []))} |")
out += ["", "## Notes", ""]
for name, r in sorted(res.items()):
    if r.get('note'):
        out.append(f"* **{name}**: {r['note']}")
open(os.path.join(root, 'README.md'), 'w').write('\n'.join(out) + '\n')
print('written', len(out), 'lines')
