#!/bin/sh
# usage: tools/seedlab.sh <slot> <seeded dir> <check id>...
# Sensitivity lab that leaves /repo and /verif alone: a scratch worktree of /repo (HEAD) with the
# seeded change applied and a copy of /verif whose harness is pointed at it (Cargo path +
# VERIF_REPO), both under /tmp/slab/<slot>. Several slots can run side by side. Prints one line
# per check: "<dir> <id> caught|MISSED (exit code, seconds) <what>". The repo worktree is removed
# afterwards; the copy of /verif (with its build cache) stays until tools/seedlab.sh --clean.
if [ "$1" = "--clean" ]; then
  for r in /tmp/slab/*/repo-*; do [ -d "$r" ] && git -C /repo worktree remove --force "$r"; done
  git -C /repo worktree prune; rm -rf /tmp/slab; exit 0
fi
slot="$1"; dir="$(cd "$2" && pwd)"; shift 2
[ -f "$dir/patch.diff" ] || { echo "no patch in $dir"; exit 2; }
L=/tmp/slab/$slot
mkdir -p "$L" || exit 2
R="$L/repo-$slot"
git -C /repo worktree remove --force "$R" 2>/dev/null
git -C /repo worktree add -q --detach "$R" HEAD || exit 2
git -C "$R" apply "$dir/patch.diff" || { echo "$(basename $dir): patch does not apply"; git -C /repo worktree remove --force "$R"; exit 2; }
rsync -a --delete --exclude .git --exclude engine/target --exclude engine/fuzz/target --exclude engine/target-build.log --exclude replays/new --exclude evidence /verif/ "$L/verif/" || exit 2
sed -i "s#path = \"/repo\"#path = \"$R\"#" "$L/verif/engine/core/Cargo.toml" "$L/verif/engine/vcheck/Cargo.toml"
cd "$L/verif" || exit 2
VERIF_REPO="$R"; export VERIF_REPO
: "${VERIF_TIME_BUDGET_S:=3000}"; export VERIF_TIME_BUDGET_S
for id in "$@"; do
  s=$(date +%s)
  ./check "$id" quick > "$L/$(basename $dir)-$id.log" 2>&1
  rc=$?
  e=$(date +%s)
  if [ $rc -eq 1 ] && grep -q "^VIOLATION property=$id" "$L/$(basename $dir)-$id.log"; then v=caught; else v=MISSED; fi
  echo "$(basename $dir) $id $v (exit $rc, $((e-s))s) $(grep -m1 '^  what:' "$L/$(basename $dir)-$id.log" | cut -c1-200)"
done
git -C /repo worktree remove --force "$R"
