#!/bin/sh
# run every registered thorough check once with the given seed; print exit status and duration
cd "$(dirname "$0")/.." || exit 2
seed="${1:-0}"; shift
ids="$*"
[ -n "$ids" ] || ids=$(python3 -c "import json;print(' '.join(c['property_id'] for c in json.load(open('MANIFEST.json'))['checks']))")
for id in $ids; do
  s=$(date +%s)
  VERIF_SEED=$seed ./check $id thorough > /tmp/allthorough-$id-$seed.log 2>&1
  rc=$?
  e=$(date +%s)
  echo "seed=$seed $id exit=$rc $((e-s))s $(grep -c '^VIOLATION' /tmp/allthorough-$id-$seed.log) violations $(grep -c '^KNOWN-FINDING' /tmp/allthorough-$id-$seed.log) known"
done
