#!/bin/sh
# usage: tools/seedtest.sh <seeded dir> <check id>...
# Applies seeded/<dir>/patch.diff to /repo, runs the given quick checks, undoes the patch.
# Prints one line per check: "<dir> <id> caught|MISSED (exit code, seconds)".
cd "$(dirname "$0")/.." || exit 2
dir="$1"; shift
[ -f "$dir/patch.diff" ] || { echo "no patch in $dir"; exit 2; }
if [ -n "$(git -C /repo status --porcelain --untracked-files=no)" ]; then echo "/repo has uncommitted changes"; exit 2; fi
git -C /repo apply "$PWD/$dir/patch.diff" || { echo "patch does not apply"; exit 2; }
for id in "$@"; do
  s=$(date +%s)
  ./check "$id" quick > "/tmp/seedtest-$(basename $dir)-$id.log" 2>&1
  rc=$?
  e=$(date +%s)
  if [ $rc -eq 1 ] && grep -q "^VIOLATION property=$id" "/tmp/seedtest-$(basename $dir)-$id.log"; then v=caught; else v=MISSED; fi
  echo "$(basename $dir) $id $v (exit $rc, $((e-s))s) $(grep -m1 '^  what:' /tmp/seedtest-$(basename $dir)-$id.log | cut -c1-160)"
done
git -C /repo checkout -- . 
git -C /repo status --porcelain --untracked-files=no
