//! Choice streams. Every generator in this framework is a pure function of a `Vec<u32>` drawn
//! from a proptest strategy, consumed through `Dice`. An exhausted stream yields 0, and 0 always
//! selects the simplest option, so proptest's vector shrinking (delete elements, shrink numbers)
//! drives every generated object towards a small one; replay is the stream itself.

use proptest::prelude::*;
use proptest::strategy::ValueTree;
use proptest::test_runner::{Config, RngAlgorithm, TestRng, TestRunner};

pub struct Dice<'a> {
    data: &'a [u32],
    pos: usize,
}

impl<'a> Dice<'a> {
    pub fn new(data: &'a [u32]) -> Self {
        Dice { data, pos: 0 }
    }
    pub fn raw(&mut self) -> u32 {
        let v = self.data.get(self.pos).copied().unwrap_or(0);
        self.pos += 1;
        v
    }
    /// monotone map of the next value to 0..n
    pub fn below(&mut self, n: usize) -> usize {
        if n <= 1 {
            self.pos += 1;
            return 0;
        }
        ((self.raw() as u64 * n as u64) >> 32) as usize
    }
    /// true with probability num/den; 0 maps to false
    pub fn chance(&mut self, num: u32, den: u32) -> bool {
        let v = self.below(den as usize) as u32;
        v >= den - num
    }
    pub fn weighted(&mut self, weights: &[u32]) -> usize {
        let total: u32 = weights.iter().sum();
        let mut v = self.below(total as usize) as u32;
        for (i, w) in weights.iter().enumerate() {
            if v < *w {
                return i;
            }
            v -= w;
        }
        weights.len() - 1
    }
    pub fn exhausted(&self) -> bool {
        self.pos >= self.data.len()
    }
    pub fn used(&self) -> usize {
        self.pos
    }
}

pub fn stream_strategy(max_len: usize) -> impl Strategy<Value = Vec<u32>> {
    proptest::collection::vec(any::<u32>(), 0..max_len)
}

pub fn mix(seed: u64, tags: &[u64]) -> u64 {
    // splitmix-style mixing for sub-stream seeds
    let mut x = seed ^ 0x9E37_79B9_7F4A_7C15;
    for t in tags {
        x = x.wrapping_add(*t).wrapping_mul(0xBF58_476D_1CE4_E5B9);
        x ^= x >> 30;
        x = x.wrapping_mul(0x94D0_49BB_1331_11EB);
        x ^= x >> 31;
    }
    x
}

pub fn tag(s: &str) -> u64 {
    let mut h: u64 = 0xcbf29ce484222325;
    for b in s.bytes() {
        h ^= b as u64;
        h = h.wrapping_mul(0x100000001b3);
    }
    h
}

pub fn runner(seed: u64, cases: u32) -> TestRunner {
    let mut bytes = [0u8; 32];
    for i in 0..4 {
        bytes[i * 8..(i + 1) * 8].copy_from_slice(&mix(seed, &[i as u64]).to_le_bytes());
    }
    let cfg = Config { cases, failure_persistence: None, max_shrink_iters: 4000, max_global_rejects: 1 << 20, ..Config::default() };
    TestRunner::new_with_rng(cfg, TestRng::from_seed(RngAlgorithm::ChaCha, &bytes))
}

/// Draw `n` fresh value trees from the stream strategy.
pub fn draw_trees(runner: &mut TestRunner, max_len: usize, n: usize) -> Vec<Box<dyn ValueTree<Value = Vec<u32>>>> {
    let s = stream_strategy(max_len);
    (0..n).map(|_| Box::new(s.new_tree(runner).unwrap()) as Box<dyn ValueTree<Value = Vec<u32>>>).collect()
}

/// Shrink a failing stream with proptest's own simplify/complicate protocol against `fails`.
pub fn shrink_stream(mut tree: Box<dyn ValueTree<Value = Vec<u32>>>, max_steps: usize, fails: &mut dyn FnMut(&[u32]) -> bool) -> Vec<u32> {
    let mut best = tree.current();
    let mut steps = 0;
    if !tree.simplify() {
        return best;
    }
    loop {
        steps += 1;
        if steps > max_steps {
            break;
        }
        let cur = tree.current();
        if fails(&cur) {
            best = cur;
            if !tree.simplify() {
                break;
            }
        } else if !tree.complicate() {
            break;
        }
    }
    best
}
