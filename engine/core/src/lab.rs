//! The parser lab: emit parsers with the working-tree lelwel, wrap each in a harness module,
//! compile a whole batch with one bare `rustc`, talk to the resulting runner over pipes.

use crate::gm::*;
use crate::lw;
use crate::refan::snake_to_pascal;
use serde_json::Value;
use std::io::{BufRead, BufReader, Write};
use std::path::{Path, PathBuf};
use std::process::{Child, ChildStdin, ChildStdout, Command, Stdio};

pub const ALPHABET: &[u8] = b"abcdefghijklmnopqrstuvwxyzABCDEFGHIJKLMNOPQRSTUVWXYZ0123456789#$%&()*+,-./:;<=>?@[]^_`{|}~";
pub const ERROR_KIND: usize = usize::MAX;

const SUPPORT_RS: &str = include_str!("../../../templates/support.rs");
const MODULE_TMPL: &str = include_str!("../../../templates/module.rs.tmpl");

pub fn width(kind: usize, enc: u8) -> usize {
    if enc == 0 { 1 } else { 1 + (kind % 3) }
}

/// Source text for a token-kind sequence (ERROR_KIND = lexer Error token).
pub fn encode(tokens: &[usize], enc: u8) -> String {
    let mut s = String::new();
    for t in tokens {
        if *t == ERROR_KIND {
            s.push('!');
        } else {
            for _ in 0..width(*t, enc) {
                s.push(ALPHABET[*t] as char);
            }
        }
    }
    s
}

/// spans of the tokens of an encoded source
pub fn spans(tokens: &[usize], enc: u8) -> Vec<(usize, usize)> {
    let mut v = vec![];
    let mut p = 0;
    for t in tokens {
        let w = if *t == ERROR_KIND { 1 } else { width(*t, enc) };
        v.push((p, p + w));
        p += w;
    }
    v
}

#[derive(Clone, Debug)]
pub struct Req {
    pub gi: usize,
    /// 0 = start rule, 1 + i = part i
    pub entry: usize,
    pub seed: u64,
    pub enc: u8,
    pub pmode: u8,
    pub amode: u8,
    pub smode: u8,
    pub tokens: Vec<usize>,
    /// base input of a metamorphic pair (C16): `tokens` is a trivia variant of it
    pub base: Option<Vec<usize>>,
}

impl Req {
    pub fn new(gi: usize, tokens: Vec<usize>) -> Req {
        Req { gi, entry: 0, seed: 1, enc: 0, pmode: 0, amode: 0, smode: 0, tokens, base: None }
    }
}

#[derive(Clone, Debug, PartialEq)]
pub enum Status {
    Ok,
    Panic(String),
    /// the parse returned, but reading the tree through children()/get()/span() panicked
    TreePanic(String),
    Fuel,
    Depth,
    Died,
}

#[derive(Clone, Debug, PartialEq)]
pub enum TNode {
    Rule { kind: String, r: usize, s: usize, e: usize, ch: Vec<TNode> },
    Tok { kind: String, r: usize, idx: usize, s: usize, e: usize },
}

impl TNode {
    pub fn span(&self) -> (usize, usize) {
        match self {
            TNode::Rule { s, e, .. } | TNode::Tok { s, e, .. } => (*s, *e),
        }
    }
    pub fn leaves<'a>(&'a self, out: &mut Vec<&'a TNode>) {
        match self {
            TNode::Rule { ch, .. } => ch.iter().for_each(|c| c.leaves(out)),
            t => out.push(t),
        }
    }
    /// same format as the runner's `dump`
    pub fn dump(&self) -> String {
        match self {
            TNode::Rule { kind, ch, .. } => format!("{}[{}]", kind, ch.iter().map(|c| c.dump()).collect::<Vec<_>>().join(" ")),
            TNode::Tok { kind, idx, .. } => format!("{kind}@{idx}"),
        }
    }
    pub fn walk<'a>(&'a self, f: &mut dyn FnMut(&'a TNode)) {
        f(self);
        if let TNode::Rule { ch, .. } = self {
            ch.iter().for_each(|c| c.walk(f));
        }
    }
}

#[derive(Clone, Debug, PartialEq)]
pub enum Event {
    /// created(kind, node ref, announced kind matches, dump)
    Created(String, usize, bool, String),
    Deleted(String, usize, String),
    /// predicate(rule, n, result, peeks, peek_lefts, pos, in_choice)
    Pred(String, u64, bool, Vec<String>, Vec<String>, usize, bool),
    /// action(rule, n, in_choice, pos)
    Action(String, u64, bool, usize),
    /// assertion(rule, n, failed, snapshot, nodes dump)
    Assert(String, u64, bool, Value, String),
}

#[derive(Clone, Debug)]
pub struct Reply {
    pub status: Status,
    /// (is_token, kind, offset-or-index)
    pub flat: Vec<(bool, String, usize)>,
    pub tree: Option<TNode>,
    pub diags: Vec<(usize, usize, String)>,
    pub log: Vec<Event>,
    pub ticks: u64,
    pub depth: u64,
    pub diag_calls: u64,
}

fn parse_tree(v: &Value) -> Option<TNode> {
    let a = v.as_array()?;
    let kind = a[1].as_str()?.to_string();
    if a[0].as_str()? == "R" {
        Some(TNode::Rule { kind, r: a[2].as_u64()? as usize, s: a[3].as_u64()? as usize, e: a[4].as_u64()? as usize, ch: a[5].as_array()?.iter().map(parse_tree).collect::<Option<Vec<_>>>()? })
    } else {
        Some(TNode::Tok { kind, r: a[2].as_u64()? as usize, idx: a[3].as_u64()? as usize, s: a[4].as_u64()? as usize, e: a[5].as_u64()? as usize })
    }
}

pub fn parse_reply(line: &str) -> Reply {
    let mut de = serde_json::Deserializer::from_str(line);
    de.disable_recursion_limit();
    let v: Value = serde::Deserialize::deserialize(&mut de).unwrap_or_else(|e| panic!("bad runner reply ({e}): {}", &line[..line.len().min(300)]));
    let st = v["st"].as_str().unwrap_or("");
    let status = if st == "ok" {
        Status::Ok
    } else if st == "fuel" {
        Status::Fuel
    } else if st == "depth" {
        Status::Depth
    } else if let Some(m) = st.strip_prefix("tree-panic:") {
        Status::TreePanic(m.to_string())
    } else {
        Status::Panic(st.trim_start_matches("panic:").to_string())
    };
    let strs = |v: &Value| -> Vec<String> { v.as_array().map(|a| a.iter().map(|x| x.as_str().unwrap_or("").to_string()).collect()).unwrap_or_default() };
    let mut log = vec![];
    for e in v["log"].as_array().cloned().unwrap_or_default() {
        let a = e.as_array().unwrap();
        let s = |i: usize| a[i].as_str().unwrap_or("").to_string();
        let n = |i: usize| a[i].as_u64().unwrap_or(0);
        let b = |i: usize| a[i].as_bool().unwrap_or(false);
        log.push(match a[0].as_str().unwrap() {
            "C" => Event::Created(s(1), n(2) as usize, b(3), s(4)),
            "X" => Event::Deleted(s(1), n(2) as usize, s(3)),
            "P" => Event::Pred(s(1), n(2), b(3), strs(&a[4]), strs(&a[5]), n(6) as usize, b(7)),
            "A" => Event::Action(s(1), n(2), b(3), n(4) as usize),
            _ => Event::Assert(s(1), n(2), b(3), a[4].clone(), s(5)),
        });
    }
    Reply {
        status,
        flat: v["flat"].as_array().map(|a| a.iter().map(|x| (x[0].as_u64() == Some(1), x[1].as_str().unwrap_or("").to_string(), x[2].as_u64().unwrap_or(0) as usize)).collect()).unwrap_or_default(),
        tree: parse_tree(&v["tree"]),
        diags: v["diags"].as_array().map(|a| a.iter().map(|x| (x[0].as_u64().unwrap_or(0) as usize, x[1].as_u64().unwrap_or(0) as usize, x[2].as_str().unwrap_or("").to_string())).collect()).unwrap_or_default(),
        log,
        ticks: v["ticks"].as_u64().unwrap_or(0),
        depth: v["depth"].as_u64().unwrap_or(0),
        diag_calls: v["diag_calls"].as_u64().unwrap_or(0),
    }
}

/// Names of the callback methods declared by the emitted trait.
pub fn trait_methods(generated: &str) -> Vec<String> {
    let Some(i) = generated.find("pub trait ParserCallbacks<'a>") else { return vec![] };
    let mut out = vec![];
    for line in generated[i..].lines() {
        let t = line.trim_start();
        if let Some(rest) = t.strip_prefix("fn ") {
            if let Some(p) = rest.find('(') {
                out.push(rest[..p].to_string());
            }
        }
    }
    out
}

fn split_num(s: &str) -> Option<(&str, u64)> {
    let p = s.rfind('_')?;
    let n = s[p + 1..].parse().ok()?;
    Some((&s[..p], n))
}

pub fn callbacks_text(generated: &str) -> String {
    let mut out = String::new();
    let mut seen = std::collections::BTreeSet::new();
    for m in trait_methods(generated) {
        if !seen.insert(m.clone()) {
            continue;
        }
        if let Some(k) = m.strip_prefix("create_node_") {
            out.push_str(&format!("        fn {m}(&mut self, node_ref: NodeRef, _diags: &mut Vec<Self::Diagnostic>) {{ self.h_created(\"{k}\", node_ref); }}\n"));
        } else if let Some(k) = m.strip_prefix("delete_node_") {
            out.push_str(&format!("        fn {m}(&mut self, node_ref: NodeRef) {{ self.h_deleted(\"{k}\", node_ref); }}\n"));
        } else if let Some(k) = m.strip_prefix("predicate_") {
            if let Some((r, n)) = split_num(k) {
                out.push_str(&format!("        fn {m}(&self) -> bool {{ self.h_pred(\"{r}\", {n}) }}\n"));
            }
        } else if let Some(k) = m.strip_prefix("action_") {
            if let Some((r, n)) = split_num(k) {
                out.push_str(&format!("        fn {m}(&mut self, _diags: &mut Vec<Self::Diagnostic>) {{ self.h_action(\"{r}\", {n}); }}\n"));
            }
        } else if let Some(k) = m.strip_prefix("assertion_") {
            if let Some((r, n)) = split_num(k) {
                out.push_str(&format!("        fn {m}(&self) -> Option<Self::Diagnostic> {{ self.h_assert(\"{r}\", {n}) }}\n"));
            }
        }
    }
    out
}

/// Insert fuel ticks into every `loop {` and a depth guard at the top of every rule function.
/// Returns None if the text does not have the expected shape (then the lab runs uninstrumented).
pub fn instrument(generated: &str) -> Option<String> {
    let mut out = String::with_capacity(generated.len() + 4096);
    let mut in_rec_sig = false;
    let mut rule_fns = 0;
    let mut guards = 0;
    let mut loops = 0;
    for line in generated.lines() {
        let t = line.trim_start();
        let mut l = line.to_string();
        if t.contains("loop {") {
            loops += t.matches("loop {").count();
            l = l.replace("loop {", "loop { crate::support::tick();");
        }
        out.push_str(&l);
        out.push('\n');
        if t.starts_with("fn rule_") || (t.starts_with("#[allow(unused_assignments)]") && t.contains("fn rule_")) {
            rule_fns += 1;
            if t.ends_with('{') {
                out.push_str("let _depth_guard = crate::support::enter();\n");
                guards += 1;
            }
        } else if t.starts_with("fn rec<'a>(") {
            in_rec_sig = true;
            rule_fns += 1;
        } else if in_rec_sig && t.starts_with(')') && t.ends_with('{') {
            in_rec_sig = false;
            out.push_str("let _depth_guard = crate::support::enter();\n");
            guards += 1;
        }
    }
    let declared = generated.matches("fn rule_").count() + generated.matches("fn rec<'a>(").count();
    if guards != rule_fns || rule_fns != declared || loops != generated.matches("loop {").count() {
        return None;
    }
    Some(out)
}

#[derive(Clone, Debug)]
pub enum Prep {
    /// module written
    Ok { warnings: Vec<lw::LwDiag> },
    Rejected(Vec<lw::LwDiag>),
    /// lelwel panicked in the front end / semantic pass / code generator
    Panicked(String),
    TooManyTokens,
}

pub struct LabOpts {
    pub instrument: bool,
    pub metadata_only: bool,
}

impl Default for LabOpts {
    fn default() -> Self {
        LabOpts { instrument: true, metadata_only: false }
    }
}

pub fn module_text(k: usize, g: &Grammar, generated: &str) -> String {
    let mut variants = String::new();
    let mut list = vec![];
    for t in &g.tokens {
        variants.push_str(&format!("        {},\n", t.name));
        list.push(format!("Token::{}", t.name));
    }
    for p in &g.parts {
        variants.push_str(&format!("        EOF{},\n", snake_to_pascal(&g.rules[*p].name)));
    }
    let mut entries = format!("                0 => parser.parse(&mut diags),\n");
    for (i, p) in g.parts.iter().enumerate() {
        entries.push_str(&format!("                {} => parser.parse_{}(&mut diags),\n", i + 1, g.rules[*p].name));
    }
    let pskip = if g.tokens.is_empty() {
        String::new()
    } else {
        format!("        fn predicate_skip(&self, token: Token) -> bool {{ self.context.smode == 1 && token == Token::{} }}\n", g.tokens[0].name)
    };
    MODULE_TMPL
        .replace("@MOD@", &format!("g{k}"))
        .replace("@TOKEN_VARIANTS@", variants.trim_end_matches('\n'))
        .replace("@TOKEN_LIST@", &list.join(", "))
        .replace("@CHARS@", std::str::from_utf8(&ALPHABET[..g.tokens.len()]).unwrap().replace('\\', "\\\\").replace('"', "\\\"").as_str())
        .replace("@PREDICATE_SKIP@", &pskip)
        .replace("@CALLBACKS@", &callbacks_text(generated))
        .replace("@ENTRIES@", entries.trim_end_matches('\n'))
}

/// Emit + wrap one grammar as module `g<k>` under `dir`.
pub fn prepare_module(dir: &Path, k: usize, g: &Grammar, text: &str, opts: &LabOpts) -> Prep {
    if g.tokens.len() > ALPHABET.len() {
        return Prep::TooManyTokens;
    }
    let sub = dir.join(format!("g{k}"));
    let text2 = text.to_string();
    let sub2 = sub.clone();
    let res = lw::catch(move || lw::emit(&text2, &sub2));
    let warnings = match res {
        Err(p) => return Prep::Panicked(p),
        Ok(Err(d)) => return Prep::Rejected(d),
        Ok(Ok(w)) => w,
    };
    let gen_path = sub.join("generated.rs");
    let generated = std::fs::read_to_string(&gen_path).unwrap();
    if opts.instrument {
        if let Some(i) = instrument(&generated) {
            std::fs::write(&gen_path, i).unwrap();
        }
    }
    std::fs::write(dir.join(format!("g{k}.rs")), module_text(k, g, &generated)).unwrap();
    Prep::Ok { warnings }
}

pub fn write_main(dir: &Path, mods: &[usize]) {
    let mut s = String::from("#![allow(warnings)]\nmod support;\n");
    for k in mods {
        s.push_str(&format!("mod g{k};\n"));
    }
    s.push_str("fn dispatch(req: &support::Req) -> String {\n    match req.gi {\n");
    for k in mods {
        s.push_str(&format!("        {k} => g{k}::g{k}::run(req),\n"));
    }
    s.push_str("        _ => String::from(\"{\\\"st\\\":\\\"panic:no such grammar\\\"}\"),\n    }\n}\nfn main() { support::main_loop(dispatch); }\n");
    std::fs::write(dir.join("main.rs"), s).unwrap();
    std::fs::write(dir.join("support.rs"), SUPPORT_RS).unwrap();
}

#[derive(Debug, Clone)]
pub struct CompileError {
    pub module: Option<usize>,
    pub code: String,
    pub message: String,
}

/// One rustc invocation for the whole directory. Err = parsed error list.
pub fn rustc(dir: &Path, metadata_only: bool) -> Result<(), Vec<CompileError>> {
    let mut cmd = Command::new("rustc");
    cmd.current_dir(dir)
        .args(["--edition", "2024", "-C", "debuginfo=0", "-C", "opt-level=0", "-C", "overflow-checks=on", "-C", "debug-assertions=on", "--cap-lints", "allow", "--error-format=short", "--crate-type", "bin", "--crate-name", "runner"]);
    if metadata_only {
        cmd.args(["--emit=metadata", "-o", "runner.rmeta"]);
    } else {
        cmd.args(["-C", "codegen-units=8", "-o", "runner"]);
    }
    cmd.arg("main.rs");
    let out = cmd.output().expect("cannot run rustc");
    if out.status.success() {
        return Ok(());
    }
    let stderr = String::from_utf8_lossy(&out.stderr);
    let mut errs = vec![];
    for line in stderr.lines() {
        if !line.contains("error") {
            continue;
        }
        let module = line.find('g').and_then(|_| {
            // path prefix like g12.rs:.. or g12/generated.rs:..
            let p = line.split(':').next().unwrap_or("");
            let p = p.trim_start_matches("./");
            let digits: String = p.strip_prefix('g')?.chars().take_while(|c| c.is_ascii_digit()).collect();
            digits.parse::<usize>().ok()
        });
        let code = line.find("error[").map(|i| line[i + 6..].chars().take_while(|c| *c != ']').collect::<String>()).unwrap_or_default();
        if line.contains("aborting due to") || line.contains("could not compile") {
            continue;
        }
        errs.push(CompileError { module, code, message: line.to_string() });
    }
    if errs.is_empty() {
        errs.push(CompileError { module: None, code: String::new(), message: stderr.chars().take(2000).collect() });
    }
    Err(errs)
}

pub struct Runner {
    child: Child,
    stdin: ChildStdin,
    stdout: BufReader<ChildStdout>,
    exe: PathBuf,
}

impl Runner {
    pub fn start(exe: &Path) -> Runner {
        let mut child = Command::new(exe).stdin(Stdio::piped()).stdout(Stdio::piped()).stderr(Stdio::null()).spawn().expect("cannot start runner");
        let stdin = child.stdin.take().unwrap();
        let stdout = BufReader::new(child.stdout.take().unwrap());
        Runner { child, stdin, stdout, exe: exe.to_path_buf() }
    }
    fn restart(&mut self) {
        let _ = self.child.kill();
        let _ = self.child.wait();
        *self = Runner::start(&self.exe.clone());
    }
    fn try_run(&mut self, req: &Req) -> Option<Reply> {
        let line = format!("{} {} {} {} {} {} {} s:{}\n", req.gi, req.entry, req.seed, req.enc, req.pmode, req.amode, req.smode, encode(&req.tokens, req.enc));
        if self.stdin.write_all(line.as_bytes()).is_err() || self.stdin.flush().is_err() {
            return None;
        }
        let mut buf = String::new();
        match self.stdout.read_line(&mut buf) {
            Ok(n) if n > 0 => Some(parse_reply(buf.trim_end())),
            _ => None,
        }
    }
    /// Run a request; a dead runner is restarted and the request retried alone once — only a
    /// reproducible death is reported as `Died`.
    pub fn run(&mut self, req: &Req) -> Reply {
        if let Some(r) = self.try_run(req) {
            return r;
        }
        self.restart();
        if let Some(r) = self.try_run(req) {
            return r;
        }
        self.restart();
        Reply { status: Status::Died, flat: vec![], tree: None, diags: vec![], log: vec![], ticks: 0, depth: 0, diag_calls: 0 }
    }
}

impl Drop for Runner {
    fn drop(&mut self) {
        let _ = self.child.kill();
        let _ = self.child.wait();
    }
}

#[derive(Clone, Debug)]
pub enum ModState {
    Ready,
    Rejected(Vec<lw::LwDiag>),
    Panicked(String),
    CompileFailed(Vec<CompileError>),
    Skipped(&'static str),
}

pub struct Batch {
    pub dir: PathBuf,
    pub states: Vec<ModState>,
    pub warnings: Vec<Vec<lw::LwDiag>>,
    pub runner: Option<Runner>,
    /// the compile as a whole failed for reasons not attributable to a module
    pub infra_error: Option<String>,
}

static BATCH_COUNTER: std::sync::atomic::AtomicUsize = std::sync::atomic::AtomicUsize::new(0);

pub fn scratch_root() -> PathBuf {
    crate::ev::root().join("engine").join("target").join("lab").join(format!("p{}", std::process::id()))
}

/// Emit, wrap and compile a batch of grammars (given as model + printed text).
pub fn build_batch(items: &[(Grammar, String)], opts: &LabOpts) -> Batch {
    let id = BATCH_COUNTER.fetch_add(1, std::sync::atomic::Ordering::SeqCst);
    let dir = scratch_root().join(format!("b{id}"));
    let _ = std::fs::remove_dir_all(&dir);
    std::fs::create_dir_all(&dir).unwrap();
    let mut states = vec![];
    let mut warnings = vec![];
    for (k, (g, text)) in items.iter().enumerate() {
        let (st, w) = match prepare_module(&dir, k, g, text, opts) {
            Prep::Ok { warnings } => (ModState::Ready, warnings),
            Prep::Rejected(d) => (ModState::Rejected(d), vec![]),
            Prep::Panicked(p) => (ModState::Panicked(p), vec![]),
            Prep::TooManyTokens => (ModState::Skipped("too many tokens"), vec![]),
        };
        states.push(st);
        warnings.push(w);
    }
    let mut infra_error = None;
    for _round in 0..6 {
        let mods: Vec<usize> = states.iter().enumerate().filter(|(_, s)| matches!(s, ModState::Ready)).map(|(i, _)| i).collect();
        if mods.is_empty() {
            break;
        }
        write_main(&dir, &mods);
        match rustc(&dir, opts.metadata_only) {
            Ok(()) => {
                let runner = if opts.metadata_only { None } else { Some(Runner::start(&dir.join("runner"))) };
                return Batch { dir, states, warnings, runner, infra_error: None };
            }
            Err(errs) => {
                let mut any = false;
                for k in mods {
                    let mine: Vec<CompileError> = errs.iter().filter(|e| e.module == Some(k)).cloned().collect();
                    if !mine.is_empty() {
                        states[k] = ModState::CompileFailed(mine);
                        any = true;
                    }
                }
                if !any {
                    infra_error = Some(errs.iter().map(|e| e.message.clone()).collect::<Vec<_>>().join("\n"));
                    break;
                }
            }
        }
    }
    Batch { dir, states, warnings, runner: None, infra_error }
}

impl Batch {
    pub fn run(&mut self, req: &Req) -> Reply {
        self.runner.as_mut().expect("no runner").run(req)
    }
    pub fn ready(&self, k: usize) -> bool {
        matches!(self.states[k], ModState::Ready) && self.runner.is_some()
    }
}

impl Drop for Batch {
    fn drop(&mut self) {
        self.runner = None;
        if std::env::var("VERIF_KEEP_LAB").is_err() {
            let _ = std::fs::remove_dir_all(&self.dir);
        }
    }
}

pub fn cleanup_scratch() {
    let _ = std::fs::remove_dir_all(scratch_root());
}
