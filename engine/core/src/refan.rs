//! Reference analyses, independent of lelwel's `sema.rs`: a plain BNF built from the grammar
//! model (one nonterminal per regex occurrence), nullable / first / follow / predict by
//! relational closure, productivity, reachability, dominators by deletion.

use crate::gm::{Flat, Grammar, K};
use std::collections::BTreeSet;

/// Terminal set: bitset over token indices; end markers come after the declared tokens:
/// index T = EOF, T+1+i = EOF of part i (in `Grammar::parts` order).
#[derive(Clone, Copy, PartialEq, Eq, Hash, Default, Debug)]
pub struct TS(pub [u64; 4]);

impl TS {
    pub fn one(i: usize) -> TS {
        let mut t = TS::default();
        t.insert(i);
        t
    }
    pub fn insert(&mut self, i: usize) {
        assert!(i < 256, "too many terminals for reference bitset");
        self.0[i / 64] |= 1 << (i % 64);
    }
    pub fn remove(&mut self, i: usize) {
        self.0[i / 64] &= !(1 << (i % 64));
    }
    pub fn contains(&self, i: usize) -> bool {
        i < 256 && self.0[i / 64] & (1 << (i % 64)) != 0
    }
    pub fn union(&self, o: &TS) -> TS {
        TS([self.0[0] | o.0[0], self.0[1] | o.0[1], self.0[2] | o.0[2], self.0[3] | o.0[3]])
    }
    pub fn inter(&self, o: &TS) -> TS {
        TS([self.0[0] & o.0[0], self.0[1] & o.0[1], self.0[2] & o.0[2], self.0[3] & o.0[3]])
    }
    pub fn minus(&self, o: &TS) -> TS {
        TS([self.0[0] & !o.0[0], self.0[1] & !o.0[1], self.0[2] & !o.0[2], self.0[3] & !o.0[3]])
    }
    pub fn is_empty(&self) -> bool {
        self.0 == [0; 4]
    }
    pub fn len(&self) -> usize {
        self.0.iter().map(|w| w.count_ones() as usize).sum()
    }
    pub fn iter(&self) -> impl Iterator<Item = usize> + '_ {
        (0..256).filter(move |i| self.contains(*i))
    }
}

#[derive(Clone, Copy, PartialEq, Eq, Debug)]
pub enum Sym {
    T(usize),
    N(usize),
}

pub struct Bnf {
    /// number of nonterminals; ids 0..flat.nodes.len() are the regex occurrences
    pub n_nt: usize,
    pub prods: Vec<(usize, Vec<Sym>)>,
    pub n_tokens: usize,
    pub n_terms: usize,
    /// nonterminal standing for "the body of rule r" (a regex node, or an ε-nonterminal)
    pub body_nt: Vec<usize>,
    /// augmented start symbol
    pub start_nt: usize,
    /// entry nonterminals: [start, part0, part1, ...] each `entry → body marker`
    pub entry_nt: Vec<usize>,
}

pub fn eof_index(g: &Grammar) -> usize {
    g.tokens.len()
}
pub fn part_eof_index(g: &Grammar, part_pos: usize) -> usize {
    g.tokens.len() + 1 + part_pos
}

pub fn snake_to_pascal(name: &str) -> String {
    // our own copy of the documented naming rule for `EOF<Part>` / node names
    let mut res = String::new();
    let mut upper = true;
    for c in name.chars() {
        if upper {
            res.push(c.to_ascii_uppercase());
            upper = false;
        } else if c == '_' {
            upper = true;
        } else {
            res.push(c);
        }
    }
    res
}

pub fn term_name(g: &Grammar, i: usize) -> String {
    if i < g.tokens.len() {
        g.tokens[i].name.clone()
    } else if i == g.tokens.len() {
        "EOF".to_string()
    } else {
        format!("EOF{}", snake_to_pascal(&g.rules[g.parts[i - g.tokens.len() - 1]].name))
    }
}

/// `loose`: also let every part's end marker follow the start rule (interpretation I-3).
pub fn build_bnf_opt(g: &Grammar, flat: &Flat, loose: bool) -> Bnf {
    let n = flat.nodes.len();
    let mut n_nt = n;
    let mut prods: Vec<(usize, Vec<Sym>)> = vec![];
    let mut body_nt = vec![];
    for (r, b) in flat.rule_body.iter().enumerate() {
        let _ = r;
        match b {
            Some(id) => body_nt.push(*id),
            None => {
                prods.push((n_nt, vec![]));
                body_nt.push(n_nt);
                n_nt += 1;
            }
        }
    }
    for (id, node) in flat.nodes.iter().enumerate() {
        let ch = &node.children;
        match &node.kind {
            K::Tok(t) => prods.push((id, vec![Sym::T(*t)])),
            K::Ref(r) => prods.push((id, vec![Sym::N(body_nt[*r])])),
            K::Concat => prods.push((id, ch.iter().map(|c| Sym::N(*c)).collect())),
            K::Alt | K::Choice => {
                for c in ch {
                    prods.push((id, vec![Sym::N(*c)]));
                }
            }
            K::Opt => {
                prods.push((id, vec![Sym::N(ch[0])]));
                prods.push((id, vec![]));
            }
            K::Star => {
                prods.push((id, vec![Sym::N(ch[0]), Sym::N(id)]));
                prods.push((id, vec![]));
            }
            K::Plus => {
                let aux = n_nt;
                n_nt += 1;
                prods.push((id, vec![Sym::N(ch[0]), Sym::N(aux)]));
                prods.push((aux, vec![Sym::N(ch[0]), Sym::N(aux)]));
                prods.push((aux, vec![]));
            }
            K::Paren => match ch.first() {
                Some(c) => prods.push((id, vec![Sym::N(*c)])),
                None => prods.push((id, vec![])),
            },
            _ => prods.push((id, vec![])),
        }
    }
    let nt = g.tokens.len();
    let start_nt = n_nt;
    n_nt += 1;
    let mut entry_nt = vec![];
    // start entry: start body followed by EOF or by any part's marker (interpretation I-3)
    let e = n_nt;
    n_nt += 1;
    entry_nt.push(e);
    prods.push((start_nt, vec![Sym::N(e)]));
    prods.push((e, vec![Sym::N(body_nt[g.start]), Sym::T(nt)]));
    if loose {
        for (pi, _) in g.parts.iter().enumerate() {
            prods.push((e, vec![Sym::N(body_nt[g.start]), Sym::T(nt + 1 + pi)]));
        }
    }
    for (pi, p) in g.parts.iter().enumerate() {
        let e = n_nt;
        n_nt += 1;
        entry_nt.push(e);
        prods.push((start_nt, vec![Sym::N(e)]));
        prods.push((e, vec![Sym::N(body_nt[*p]), Sym::T(nt + 1 + pi)]));
    }
    Bnf { n_nt, prods, n_tokens: nt, n_terms: nt + 1 + g.parts.len(), body_nt, start_nt, entry_nt }
}

pub fn build_bnf(g: &Grammar, flat: &Flat) -> Bnf {
    build_bnf_opt(g, flat, true)
}

pub struct RefSets {
    pub nullable: Vec<bool>,
    pub first: Vec<TS>,
    pub follow: Vec<TS>,
    pub productive: Vec<bool>,
    pub reachable: Vec<bool>,
}

impl RefSets {
    pub fn predict(&self, n: usize) -> TS {
        if self.nullable[n] { self.first[n].union(&self.follow[n]) } else { self.first[n] }
    }
}

/// Sets by relational closure on the BNF.
pub fn ref_sets(bnf: &Bnf) -> RefSets {
    let n = bnf.n_nt;
    // nullable and productive
    let mut nullable = vec![false; n];
    let mut productive = vec![false; n];
    loop {
        let mut ch = false;
        for (lhs, rhs) in &bnf.prods {
            if !nullable[*lhs] && rhs.iter().all(|s| matches!(s, Sym::N(x) if nullable[*x])) {
                nullable[*lhs] = true;
                ch = true;
            }
            if !productive[*lhs] && rhs.iter().all(|s| match s { Sym::T(_) => true, Sym::N(x) => productive[*x] }) {
                productive[*lhs] = true;
                ch = true;
            }
        }
        if !ch {
            break;
        }
    }
    // begins-with relation
    let mut begins: Vec<Vec<usize>> = vec![vec![]; n];
    let mut direct_first = vec![TS::default(); n];
    for (lhs, rhs) in &bnf.prods {
        for s in rhs {
            match s {
                Sym::T(t) => {
                    direct_first[*lhs].insert(*t);
                    break;
                }
                Sym::N(x) => {
                    begins[*lhs].push(*x);
                    if !nullable[*x] {
                        break;
                    }
                }
            }
        }
    }
    let closure = |edges: &Vec<Vec<usize>>, direct: &Vec<TS>| -> Vec<TS> {
        let mut out = vec![TS::default(); n];
        let mut seen = vec![usize::MAX; n];
        let mut stack = vec![];
        for a in 0..n {
            let mut acc = TS::default();
            stack.clear();
            stack.push(a);
            seen[a] = a;
            while let Some(x) = stack.pop() {
                acc = acc.union(&direct[x]);
                for y in &edges[x] {
                    if seen[*y] != a {
                        seen[*y] = a;
                        stack.push(*y);
                    }
                }
            }
            out[a] = acc;
        }
        out
    };
    let first = closure(&begins, &direct_first);
    // is-followed-by
    let mut direct_follow = vec![TS::default(); n];
    let mut inherit: Vec<Vec<usize>> = vec![vec![]; n];
    for (lhs, rhs) in &bnf.prods {
        for (i, s) in rhs.iter().enumerate() {
            if let Sym::N(b) = s {
                let mut all_nullable = true;
                for t in &rhs[i + 1..] {
                    match t {
                        Sym::T(t) => {
                            direct_follow[*b].insert(*t);
                            all_nullable = false;
                            break;
                        }
                        Sym::N(x) => {
                            direct_follow[*b] = direct_follow[*b].union(&first[*x]);
                            if !nullable[*x] {
                                all_nullable = false;
                                break;
                            }
                        }
                    }
                }
                if all_nullable {
                    inherit[*b].push(*lhs);
                }
            }
        }
    }
    // only occurrences reachable from the augmented start contribute to follow
    let mut reachable = vec![false; n];
    let mut stack = vec![bnf.start_nt];
    reachable[bnf.start_nt] = true;
    let mut by_lhs: Vec<Vec<usize>> = vec![vec![]; n];
    for (i, (lhs, _)) in bnf.prods.iter().enumerate() {
        by_lhs[*lhs].push(i);
    }
    while let Some(x) = stack.pop() {
        for pi in &by_lhs[x] {
            for s in &bnf.prods[*pi].1 {
                if let Sym::N(y) = s {
                    if !reachable[*y] {
                        reachable[*y] = true;
                        stack.push(*y);
                    }
                }
            }
        }
    }
    // drop follow contributions from unreachable contexts
    for b in 0..n {
        inherit[b].retain(|a| reachable[*a]);
    }
    let mut direct_follow_r = vec![TS::default(); n];
    for (lhs, rhs) in &bnf.prods {
        if !reachable[*lhs] {
            continue;
        }
        for (i, s) in rhs.iter().enumerate() {
            if let Sym::N(b) = s {
                for t in &rhs[i + 1..] {
                    match t {
                        Sym::T(t) => {
                            direct_follow_r[*b].insert(*t);
                            break;
                        }
                        Sym::N(x) => {
                            direct_follow_r[*b] = direct_follow_r[*b].union(&first[*x]);
                            if !nullable[*x] {
                                break;
                            }
                        }
                    }
                }
            }
        }
    }
    let _ = direct_follow;
    let follow = closure(&inherit, &direct_follow_r);
    RefSets { nullable, first, follow, productive, reachable }
}

/// Rules reachable from the start rule or a part through references.
pub fn reachable_rules(g: &Grammar, from_parts: bool) -> Vec<bool> {
    let mut seen = vec![false; g.rules.len()];
    let mut stack = vec![g.start];
    if from_parts {
        stack.extend(g.parts.iter().copied());
    }
    while let Some(r) = stack.pop() {
        if seen[r] {
            continue;
        }
        seen[r] = true;
        if let Some(b) = &g.rules[r].body {
            b.walk(&mut |x| {
                if let crate::gm::Regex::Ref(t) = x {
                    stack.push(*t);
                }
            });
        }
    }
    seen
}

pub fn productive_rules(g: &Grammar) -> Vec<bool> {
    use crate::gm::Regex;
    let mut prod = vec![false; g.rules.len()];
    fn p(r: &Regex, prod: &Vec<bool>) -> bool {
        match r {
            Regex::Tok(..) => true,
            Regex::Ref(x) => prod[*x],
            Regex::Concat(v) => v.iter().all(|c| p(c, prod)),
            Regex::Alt(v) | Regex::Choice(v) => v.iter().any(|c| p(c, prod)),
            Regex::Opt(_) | Regex::Star(_) => true,
            Regex::Plus(b) => p(b, prod),
            Regex::Paren(Some(b)) => p(b, prod),
            _ => true,
        }
    }
    loop {
        let mut ch = false;
        for (i, r) in g.rules.iter().enumerate() {
            if !prod[i] && r.body.as_ref().is_none_or(|b| p(b, &prod)) {
                prod[i] = true;
                ch = true;
            }
        }
        if !ch {
            break;
        }
    }
    prod
}

/// every rule productive and reachable from start or a part
pub fn is_reduced(g: &Grammar) -> bool {
    reachable_rules(g, true).iter().all(|b| *b) && productive_rules(g).iter().all(|b| *b)
}

pub fn ts_names(g: &Grammar, ts: &TS) -> BTreeSet<String> {
    ts.iter().map(|i| term_name(g, i)).collect()
}

/// Dominator graph exactly as the documentation describes it: regex occurrences as nodes,
/// parent→child edges, reference→body edges, parts that are not referenced hang off the start
/// body. Returns for each node the set of nodes that dominate it (None if unreachable),
/// computed by deletion: d dominates n iff n is unreachable from the root once d is removed.
pub fn dominators_by_deletion(g: &Grammar, flat: &Flat) -> Vec<Option<Vec<usize>>> {
    let n = flat.nodes.len();
    let mut succ: Vec<Vec<usize>> = vec![vec![]; n];
    for (id, node) in flat.nodes.iter().enumerate() {
        for c in &node.children {
            succ[id].push(*c);
        }
        if let K::Ref(r) = node.kind {
            if let Some(b) = flat.rule_body[r] {
                succ[id].push(b);
            }
        }
    }
    let Some(root) = flat.rule_body[g.start] else {
        return vec![None; n];
    };
    let from_start = reachable_rules(g, false);
    for p in &g.parts {
        if !from_start[*p] {
            if let Some(b) = flat.rule_body[*p] {
                succ[root].push(b);
            }
        }
    }
    let reach = |deleted: Option<usize>| -> Vec<bool> {
        let mut seen = vec![false; n];
        if deleted == Some(root) {
            return seen;
        }
        let mut stack = vec![root];
        seen[root] = true;
        while let Some(x) = stack.pop() {
            for y in &succ[x] {
                if Some(*y) != deleted && !seen[*y] {
                    seen[*y] = true;
                    stack.push(*y);
                }
            }
        }
        seen
    };
    let base = reach(None);
    let mut dom: Vec<Option<Vec<usize>>> = base.iter().map(|b| if *b { Some(vec![]) } else { None }).collect();
    for d in 0..n {
        if !base[d] {
            continue;
        }
        let r = reach(Some(d));
        for x in 0..n {
            if base[x] && (x == d || !r[x]) {
                dom[x].as_mut().unwrap().push(d);
            }
        }
    }
    dom
}
