//! Input generators for emitted parsers: sentences sampled from the grammar model, mutants,
//! random strings, runs, trivia insertion. All choices come from a `Dice`.

use crate::dice::Dice;
use crate::gm::*;
use crate::lab::ERROR_KIND;

pub struct Sampler<'g> {
    pub g: &'g Grammar,
    /// minimal sentence length per rule (None = unproductive)
    pub min_rule: Vec<Option<usize>>,
    /// derivation height per rule: strictly decreasing along the minimal derivation
    pub rank_rule: Vec<Option<usize>>,
}

fn rank(r: &Regex, rank_rule: &[Option<usize>]) -> Option<usize> {
    match r {
        Regex::Tok(..) => Some(0),
        Regex::Ref(x) => rank_rule[*x],
        Regex::Concat(v) => v.iter().map(|c| rank(c, rank_rule)).try_fold(0usize, |a, b| b.map(|b| a.max(b))),
        Regex::Alt(v) | Regex::Choice(v) => v.iter().filter_map(|c| rank(c, rank_rule)).min(),
        Regex::Opt(_) | Regex::Star(_) => Some(0),
        Regex::Plus(b) => rank(b, rank_rule),
        Regex::Paren(Some(b)) => rank(b, rank_rule),
        _ => Some(0),
    }
}

fn min_len(r: &Regex, min_rule: &[Option<usize>]) -> Option<usize> {
    match r {
        Regex::Tok(..) => Some(1),
        Regex::Ref(x) => min_rule[*x],
        Regex::Concat(v) => v.iter().map(|c| min_len(c, min_rule)).sum(),
        Regex::Alt(v) | Regex::Choice(v) => v.iter().filter_map(|c| min_len(c, min_rule)).min(),
        Regex::Opt(_) | Regex::Star(_) => Some(0),
        Regex::Plus(b) => min_len(b, min_rule),
        Regex::Paren(Some(b)) => min_len(b, min_rule),
        _ => Some(0),
    }
}

impl<'g> Sampler<'g> {
    pub fn new(g: &'g Grammar) -> Sampler<'g> {
        let mut min_rule: Vec<Option<usize>> = vec![None; g.rules.len()];
        loop {
            let mut ch = false;
            for (i, r) in g.rules.iter().enumerate() {
                let m = match &r.body {
                    None => Some(0),
                    Some(b) => min_len(b, &min_rule),
                };
                if m.is_some() && (min_rule[i].is_none() || m < min_rule[i]) {
                    min_rule[i] = m;
                    ch = true;
                }
            }
            if !ch {
                break;
            }
        }
        let mut rank_rule: Vec<Option<usize>> = vec![None; g.rules.len()];
        loop {
            let mut ch = false;
            for (i, r) in g.rules.iter().enumerate() {
                let m = match &r.body {
                    None => Some(1),
                    Some(b) => rank(b, &rank_rule).map(|x| x + 1),
                };
                if m.is_some() && (rank_rule[i].is_none() || m < rank_rule[i]) {
                    rank_rule[i] = m;
                    ch = true;
                }
            }
            if !ch {
                break;
            }
        }
        Sampler { g, min_rule, rank_rule }
    }
    pub fn productive(&self, rule: usize) -> bool {
        self.min_rule[rule].is_some()
    }
    fn derive(&self, r: &Regex, d: &mut Dice<'_>, depth: usize, cap: usize, out: &mut Vec<usize>, budget: &mut usize) {
        // a step budget bounds derivations that branch a lot without producing tokens
        *budget = budget.saturating_sub(1);
        let minimal = depth == 0 || out.len() >= cap || *budget == 0;
        match r {
            Regex::Tok(t, _) => out.push(*t),
            Regex::Ref(x) => {
                if self.min_rule[*x].is_none() {
                    // unproductive rule: nothing can be derived
                    return;
                }
                if let Some(b) = &self.g.rules[*x].body {
                    self.derive(b, d, depth.saturating_sub(1), cap, out, budget)
                }
            }
            Regex::Concat(v) => v.iter().for_each(|c| self.derive(c, d, depth, cap, out, budget)),
            Regex::Alt(v) | Regex::Choice(v) => {
                let prod: Vec<&Regex> = v.iter().filter(|c| min_len(c, &self.min_rule).is_some()).collect();
                if prod.is_empty() {
                    return;
                }
                let pick = if minimal {
                    *prod.iter().min_by_key(|c| (rank(c, &self.rank_rule).unwrap_or(usize::MAX), min_len(c, &self.min_rule).unwrap())).unwrap()
                } else {
                    prod[d.below(prod.len())]
                };
                self.derive(pick, d, depth, cap, out, budget)
            }
            Regex::Opt(b) => {
                if !minimal && d.chance(1, 2) && min_len(b, &self.min_rule).is_some() {
                    self.derive(b, d, depth, cap, out, budget)
                }
            }
            Regex::Star(b) => {
                if !minimal && min_len(b, &self.min_rule).is_some() {
                    let n = d.below(4);
                    for _ in 0..n {
                        self.derive(b, d, depth.saturating_sub(1), cap, out, budget)
                    }
                }
            }
            Regex::Plus(b) => {
                let n = if minimal { 1 } else { 1 + d.below(3) };
                for _ in 0..n {
                    self.derive(b, d, depth.saturating_sub(1), cap, out, budget)
                }
            }
            Regex::Paren(Some(b)) => self.derive(b, d, depth, cap, out, budget),
            _ => {}
        }
    }
    /// a sentence of the context-free language of `rule` (predicates and priorities ignored)
    pub fn sentence(&self, rule: usize, d: &mut Dice<'_>, depth: usize, cap: usize) -> Vec<usize> {
        let mut out = vec![];
        if let Some(b) = &self.g.rules[rule].body {
            let mut budget = 4000usize;
            self.derive(b, d, depth, cap, &mut out, &mut budget);
        }
        out
    }
}

/// tokens that may appear in an input for non-trivia positions
pub fn plain_alphabet(g: &Grammar) -> Vec<usize> {
    (0..g.tokens.len()).filter(|t| !g.skip.contains(t)).collect()
}

pub fn mutate(base: &[usize], alphabet: &[usize], d: &mut Dice<'_>) -> Vec<usize> {
    let mut v = base.to_vec();
    if alphabet.is_empty() {
        return v;
    }
    let n_edits = 1 + d.below(2);
    for _ in 0..n_edits {
        match d.below(5) {
            0 => {
                if !v.is_empty() {
                    let i = d.below(v.len());
                    v.remove(i);
                }
            }
            1 => {
                let i = d.below(v.len() + 1);
                v.insert(i, alphabet[d.below(alphabet.len())]);
            }
            2 => {
                if !v.is_empty() {
                    let i = d.below(v.len());
                    v[i] = alphabet[d.below(alphabet.len())];
                }
            }
            3 => {
                if v.len() >= 2 {
                    let i = d.below(v.len() - 1);
                    v.swap(i, i + 1);
                }
            }
            _ => {
                if !v.is_empty() {
                    let i = d.below(v.len());
                    v.truncate(i);
                }
            }
        }
    }
    v
}

pub fn random_string(alphabet: &[usize], d: &mut Dice<'_>, max_len: usize) -> Vec<usize> {
    if alphabet.is_empty() {
        return vec![];
    }
    let n = d.below(max_len + 1);
    (0..n).map(|_| alphabet[d.below(alphabet.len())]).collect()
}

/// insert skipped tokens and lexer Error tokens at random gaps (incl. before first, after last)
pub fn sprinkle(base: &[usize], g: &Grammar, d: &mut Dice<'_>, density: u32, with_error: bool) -> Vec<usize> {
    let mut triv: Vec<usize> = g.skip.clone();
    if with_error {
        triv.push(ERROR_KIND);
    }
    if triv.is_empty() {
        return base.to_vec();
    }
    let mut out = vec![];
    for i in 0..=base.len() {
        if d.chance(density, 4) {
            let n = 1 + d.below(3);
            for _ in 0..n {
                out.push(triv[d.below(triv.len())]);
            }
        }
        if i < base.len() {
            out.push(base[i]);
        }
    }
    out
}

pub fn strip_trivia(tokens: &[usize], g: &Grammar) -> Vec<usize> {
    tokens.iter().copied().filter(|t| *t != ERROR_KIND && !g.skip.contains(t)).collect()
}

pub fn show(g: &Grammar, tokens: &[usize]) -> String {
    tokens.iter().map(|t| if *t == ERROR_KIND { "Error".to_string() } else { g.tokens[*t].name.clone() }).collect::<Vec<_>>().join(" ")
}

/// A standard mixed bag of inputs for one entry rule.
pub fn standard_inputs(g: &Grammar, s: &Sampler<'_>, rule: usize, d: &mut Dice<'_>, n: usize, max_len: usize) -> Vec<Vec<usize>> {
    let alpha = plain_alphabet(g);
    let mut out: Vec<Vec<usize>> = vec![vec![]];
    let mut sentences: Vec<Vec<usize>> = vec![];
    while out.len() < n {
        match d.below(10) {
            0..=2 => {
                let depth = 2 + d.below(6);
                let mut sen = s.sentence(rule, d, depth, max_len);
                if sen.len() <= max_len * 2 {
                    sentences.push(sen.clone());
                } else {
                    // too long to be useful as a sentence: keep a prefix as an ordinary input
                    sen.truncate(max_len * 2);
                }
                out.push(sen);
            }
            3..=5 => {
                let base = if sentences.is_empty() { s.sentence(rule, d, 4, max_len) } else { sentences[d.below(sentences.len())].clone() };
                out.push(mutate(&base, &alpha, d));
            }
            6 => {
                let base = if sentences.is_empty() { s.sentence(rule, d, 4, max_len) } else { sentences[d.below(sentences.len())].clone() };
                let k = d.below(base.len() + 1);
                out.push(base[..k].to_vec());
            }
            7 => out.push(random_string(&alpha, d, max_len.min(12))),
            8 => {
                if !alpha.is_empty() {
                    let t = alpha[d.below(alpha.len())];
                    let n = 1 + d.below(max_len);
                    out.push(vec![t; n]);
                }
            }
            _ => {
                let base = if out.is_empty() { vec![] } else { out[d.below(out.len())].clone() };
                let dens = 1 + d.below(3) as u32;
                out.push(sprinkle(&base, g, d, dens, true));
            }
        }
    }
    out
}
