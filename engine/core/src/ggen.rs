//! Grammar generators: pure functions of a choice stream (`Dice`), constructive, then repaired
//! by our own reference analysis so that most results are LL(1) before lelwel ever sees them.

use crate::dice::Dice;
use crate::gm::*;
use crate::refan::{self, TS};

#[derive(Clone, Debug)]
pub struct Profile {
    pub name: &'static str,
    pub max_rules: usize,
    pub max_tokens: usize,
    pub depth: usize,
    pub pratt: bool,
    pub choice: bool,
    pub nodeops: bool,
    pub actions: bool,
    pub preds: bool,
    pub pred_t: bool,
    pub asserts: bool,
    pub parts: bool,
    pub skips: bool,
    pub returns: bool,
    /// also write `&` where no token of the rule has been consumed yet (C01-C03, C11, text only:
    /// a listed finding of C03 makes such parsers spin)
    pub leading_return: bool,
    /// markers/creations that cross each other or reach into alternatives
    pub crossing: bool,
    pub shuffle_decls: bool,
    pub empty_rules: bool,
    pub symbols: bool,
    /// allow the shapes known to emit non-compiling code (C11 only)
    pub c11_shapes: bool,
    pub repair: bool,
    /// Pratt operator tokens come from the ordinary token pool (conflicts possible; C10)
    pub pratt_shared_ops: bool,
    pub choice_weight: u32,
    /// leave some rules unreachable (unused-rule warnings) instead of attaching them
    pub unreachable_rules: bool,
    /// sometimes write a lone node operator / action in parentheses: `( #1 )`
    pub paren_deco: bool,
}

impl Profile {
    pub const fn base(name: &'static str) -> Profile {
        Profile {
            name,
            max_rules: 5,
            max_tokens: 5,
            depth: 3,
            pratt: false,
            choice: false,
            nodeops: false,
            actions: false,
            preds: false,
            pred_t: false,
            asserts: false,
            parts: false,
            skips: false,
            returns: false,
            leading_return: false,
            crossing: false,
            shuffle_decls: false,
            empty_rules: false,
            symbols: true,
            c11_shapes: false,
            repair: true,
            pratt_shared_ops: false,
            choice_weight: 2,
            unreachable_rules: false,
            paren_deco: false,
        }
    }
    pub fn ebnf() -> Profile {
        Profile { parts: true, skips: true, ..Profile::base("ebnf") }
    }
    /// everything the grammar language has, including shapes that only matter to the front
    /// end: unreachable rules, parenthesised node operators, start-rule renames
    pub fn text() -> Profile {
        Profile { c11_shapes: true, unreachable_rules: true, paren_deco: true, leading_return: true, name: "text", ..Profile::full() }
    }
    pub fn full() -> Profile {
        Profile {
            pratt: true,
            choice: true,
            nodeops: true,
            actions: true,
            preds: true,
            pred_t: true,
            asserts: true,
            parts: true,
            skips: true,
            returns: true,
            crossing: false,
            shuffle_decls: true,
            empty_rules: true,
            ..Profile::base("full")
        }
    }
}

fn tok_name(i: usize) -> String {
    if i < 26 { ((b'A' + i as u8) as char).to_string() } else { format!("T{i}") }
}

pub struct Builder<'p, 'd> {
    pub p: &'p Profile,
    pub d: Dice<'d>,
    pub g: Grammar,
    /// tokens reserved (operators, delimiters, skips): never chosen as ordinary leaves
    reserved: Vec<bool>,
    n_plain: usize,
}

impl<'p, 'd> Builder<'p, 'd> {
    fn fresh_token(&mut self, reserve: bool) -> Option<usize> {
        if self.g.tokens.len() >= 24 {
            return None;
        }
        let i = self.g.tokens.len();
        let name = tok_name(i);
        let symbol = if self.p.symbols && self.d.chance(1, 2) { Some(name.to_lowercase()) } else { None };
        self.g.tokens.push(TokenDecl { name, symbol });
        self.reserved.push(reserve);
        Some(i)
    }
    fn tok_leaf(&mut self, t: usize) -> Regex {
        let sym = self.g.tokens[t].symbol.is_some() && self.d.chance(1, 3);
        Regex::Tok(t, sym)
    }
    fn plain_tok(&mut self) -> Regex {
        let t = self.d.below(self.n_plain);
        self.tok_leaf(t)
    }

    fn gen_regex(&mut self, rule: usize, n_rules: usize, depth: usize) -> Regex {
        // 0 = token (simplest)
        let w: [u32; 9] = if depth == 0 { [6, 3, 0, 0, 0, 0, 0, 0, 0] } else { [4, 3, 5, 3, 2, 4, 0, 1, if self.p.choice { self.p.choice_weight } else { 0 }] };
        match self.d.weighted(&w) {
            0 => self.plain_tok(),
            1 => {
                // reference: forward, or backward through delimiters
                if n_rules <= 1 {
                    return self.plain_tok();
                }
                let j = 1 + self.d.below(n_rules - 1);
                if j > rule {
                    Regex::Ref(j)
                } else {
                    let (Some(o), Some(c)) = (self.fresh_token(true), self.fresh_token(true)) else { return self.plain_tok() };
                    Regex::Concat(vec![Regex::Tok(o, false), Regex::Ref(j), Regex::Tok(c, false)])
                }
            }
            2 => {
                let n = 2 + self.d.below(3);
                Regex::Concat((0..n).map(|_| self.gen_regex(rule, n_rules, depth - 1)).collect())
            }
            3 => {
                let n = 2 + self.d.below(2);
                Regex::Alt((0..n).map(|_| self.gen_regex(rule, n_rules, depth - 1)).collect())
            }
            4 => Regex::Opt(Box::new(self.gen_regex(rule, n_rules, depth - 1))),
            5 | 6 => {
                let body = self.gen_regex(rule, n_rules, depth - 1);
                // a repetition directly over a repetition is inherently ambiguous
                fn strip(r: &Regex) -> &Regex {
                    match r {
                        Regex::Paren(Some(b)) => strip(b),
                        x => x,
                    }
                }
                if matches!(strip(&body), Regex::Star(_) | Regex::Plus(_)) {
                    body
                } else if self.d.chance(1, 2) {
                    Regex::Star(Box::new(body))
                } else {
                    Regex::Plus(Box::new(body))
                }
            }
            7 => {
                if self.p.empty_rules && self.d.chance(1, 6) {
                    Regex::Paren(None)
                } else {
                    Regex::Paren(Some(Box::new(self.gen_regex(rule, n_rules, depth - 1))))
                }
            }
            _ => {
                // ordered choice with shared prefixes: A B / A C
                let n = 2 + self.d.below(2);
                let prefix = self.gen_regex(rule, n_rules, 0);
                let mut alts = vec![];
                for _ in 0..n {
                    let share = self.d.chance(2, 3);
                    let tail = self.gen_regex(rule, n_rules, depth - 1);
                    let mut items = vec![];
                    if share {
                        items.push(prefix.clone());
                    }
                    items.push(tail);
                    alts.push(Regex::Concat(items));
                }
                // sometimes the last alternative can match nothing
                if self.d.chance(1, 4) {
                    let last = alts.pop().unwrap();
                    alts.push(Regex::Opt(Box::new(last)));
                }
                Regex::Choice(alts)
            }
        }
    }

    /// A directly left-recursive operator rule with fresh operator tokens.
    /// token closing a mixfix branch: fresh, or (shared-ops profiles) one that other rules use too
    fn closer(&mut self) -> Option<usize> {
        if self.p.pratt_shared_ops && self.d.chance(1, 2) {
            Some(self.d.below(self.n_plain))
        } else {
            self.fresh_token(true)
        }
    }

    fn gen_pratt(&mut self, rule: usize, n_rules: usize) -> Option<Regex> {
        let n_ops = 1 + self.d.below(4);
        let n_atoms = 1 + self.d.below(2);
        let mut branches = vec![];
        for _ in 0..n_ops {
            let kind = if (self.p.pratt_shared_ops || !self.p.repair) && self.d.chance(1, 8) {
                // everything behind the left operand can be empty: always in conflict with what
                // follows the rule (C10: the conflict must be reported)
                7 + self.d.below(3)
            } else if self.p.pratt_shared_ops && self.d.chance(1, 3) {
                5 + self.d.below(2)
            } else {
                self.d.below(7)
            };
            let n_toks = 1 + self.d.below(2);
            let mut toks = vec![];
            for _ in 0..n_toks {
                if self.p.pratt_shared_ops && self.d.chance(2, 3) {
                    toks.push(self.d.below(self.n_plain));
                } else {
                    toks.push(self.fresh_token(true)?);
                }
            }
            toks.dedup();
            let right = self.d.chance(1, 3);
            if right && matches!(kind, 0) {
                for t in &toks {
                    if !self.g.right.contains(t) {
                        self.g.right.push(*t);
                    }
                }
            }
            let op = if toks.len() == 1 {
                self.tok_leaf(toks[0])
            } else {
                Regex::Paren(Some(Box::new(Regex::Alt(toks.iter().map(|t| Regex::Tok(*t, false)).collect()))))
            };
            let e = Regex::Ref(rule);
            let b = match kind {
                0 => vec![e.clone(), op, e.clone()],
                1 => vec![op, e.clone()],
                2 => vec![e.clone(), op],
                3 => {
                    let c = self.closer()?;
                    vec![e.clone(), op, e.clone(), Regex::Tok(c, false)]
                }
                4 => {
                    let c = self.closer()?;
                    vec![e.clone(), op, e.clone(), Regex::Tok(c, false), e.clone()]
                }
                7 => vec![e.clone(), Regex::Opt(Box::new(op))],
                8 => vec![e.clone(), Regex::Star(Box::new(op))],
                // the only element behind the left operand consumes nothing
                9 => vec![e.clone(), Regex::Assert(1)],
                // nullable operator position: the branch is selected by the predict set of `[op]`, i.e. by `op` or `c`
                5 => {
                    let c = self.closer()?;
                    vec![e.clone(), Regex::Opt(Box::new(op)), Regex::Tok(c, false)]
                }
                _ => {
                    let c = self.closer()?;
                    vec![e.clone(), Regex::Star(Box::new(op)), Regex::Tok(c, false), e.clone()]
                }
            };
            branches.push(Regex::Concat(b));
        }
        for k in 0..n_atoms {
            let a = match if k == 0 { 0 } else { self.d.below(3) } {
                0 => self.plain_tok(),
                1 => {
                    let (o, c) = (self.fresh_token(true)?, self.fresh_token(true)?);
                    Regex::Concat(vec![Regex::Tok(o, false), Regex::Ref(rule), Regex::Tok(c, false)])
                }
                _ => {
                    if rule + 1 < n_rules {
                        Regex::Ref(rule + 1 + self.d.below(n_rules - rule - 1))
                    } else {
                        self.plain_tok()
                    }
                }
            };
            let pos = self.d.below(branches.len() + 1);
            branches.insert(pos, a);
        }
        Some(Regex::Alt(branches))
    }
}

/// path-free access: the k-th node (preorder) of a regex
pub fn nth_mut<'a>(r: &'a mut Regex, k: &mut usize) -> Option<&'a mut Regex> {
    if *k == 0 {
        return Some(r);
    }
    *k -= 1;
    for c in r.children_mut() {
        if let Some(x) = nth_mut(c, k) {
            return Some(x);
        }
    }
    None
}

pub fn node_mut<'a>(g: &'a mut Grammar, flat: &Flat, id: usize) -> &'a mut Regex {
    let rule = flat.nodes[id].rule;
    let base = flat.rule_body[rule].unwrap();
    let mut k = id - base;
    nth_mut(g.rules[rule].body.as_mut().unwrap(), &mut k).unwrap()
}

fn prefix_with(r: &mut Regex, t: usize) {
    let old = std::mem::replace(r, Regex::Elide);
    *r = match old {
        Regex::Concat(mut v) => {
            v.insert(0, Regex::Tok(t, false));
            Regex::Concat(v)
        }
        x => Regex::Concat(vec![Regex::Tok(t, false), x]),
    };
}

#[derive(Clone, Debug, PartialEq, Eq)]
pub enum Conflict {
    /// alternation: branch node ids (earlier, later)
    Alt(usize, usize),
    /// loop / option node id
    Loop(usize),
}

/// First LL(1) conflict according to the reference sets (definition only; predicates ignored).
pub fn find_conflict(g: &Grammar, flat: &Flat, sets: &refan::RefSets) -> Option<Conflict> {
    for (id, node) in flat.nodes.iter().enumerate() {
        match node.kind {
            K::Alt => {
                let pratt_top = node.parent.is_none() && g.is_pratt(node.rule);
                let cand: Vec<usize> = node
                    .children
                    .iter()
                    .copied()
                    .filter(|c| !(pratt_top && is_left_rec_branch(flat, *c, node.rule)))
                    .collect();
                for i in 0..cand.len() {
                    for j in i + 1..cand.len() {
                        if !sets.predict(cand[i]).inter(&sets.predict(cand[j])).is_empty() {
                            return Some(Conflict::Alt(cand[i], cand[j]));
                        }
                    }
                }
            }
            K::Star | K::Plus | K::Opt => {
                let body = node.children[0];
                if !sets.follow[id].inter(&sets.predict(body)).is_empty() {
                    return Some(Conflict::Loop(id));
                }
            }
            _ => {}
        }
    }
    None
}

pub fn is_left_rec_branch(flat: &Flat, branch: usize, rule: usize) -> bool {
    let n = &flat.nodes[branch];
    if n.kind != K::Concat {
        return false;
    }
    n.children
        .iter()
        .map(|c| &flat.nodes[*c].kind)
        .find(|k| !matches!(k, K::Pred(_) | K::Rename(_) | K::Elide | K::Action(_)))
        .is_some_and(|k| *k == K::Ref(rule))
}

/// Repair LL(1) conflicts by prefixing the later branch / the loop body with a fresh token.
pub fn repair(b: &mut Builder<'_, '_>) -> bool {
    for _ in 0..40 {
        let flat = Flat::new(&b.g);
        let bnf = refan::build_bnf(&b.g, &flat);
        let sets = refan::ref_sets(&bnf);
        let Some(c) = find_conflict(&b.g, &flat, &sets) else { return true };
        let Some(t) = b.fresh_token(true) else { return false };
        match c {
            Conflict::Alt(_, j) => prefix_with(node_mut(&mut b.g, &flat, j), t),
            Conflict::Loop(l) => {
                let body = flat.nodes[l].children[0];
                if sets.nullable[body] {
                    prefix_with(node_mut(&mut b.g, &flat, body), t)
                } else {
                    // delimiter after the construct: its follow set becomes {t}
                    let node = node_mut(&mut b.g, &flat, l);
                    let old = std::mem::replace(node, Regex::Elide);
                    *node = Regex::Concat(vec![old, Regex::Tok(t, false)]);
                }
            }
        }
        for r in b.g.rules.iter_mut() {
            if let Some(body) = r.body.take() {
                r.body = Some(body.normalize());
            }
        }
    }
    false
}

/// Which rules are (transitively) used from inside a non-last ordered-choice alternative that
/// has not been committed: there actions are illegal and try-mode code is generated.
pub fn in_choice_rules(g: &Grammar) -> Vec<bool> {
    let mut inc = vec![false; g.rules.len()];
    fn walk(r: &Regex, active: bool, inc: &mut Vec<bool>, changed: &mut bool) {
        match r {
            Regex::Ref(x) => {
                if active && !inc[*x] {
                    inc[*x] = true;
                    *changed = true;
                }
            }
            Regex::Concat(v) => {
                let mut a = active;
                for c in v {
                    walk(c, a, inc, changed);
                    if matches!(c, Regex::Commit) {
                        a = false;
                    }
                }
            }
            Regex::Choice(v) => {
                for (i, c) in v.iter().enumerate() {
                    walk(c, if i + 1 < v.len() { true } else { active }, inc, changed);
                }
            }
            _ => {
                for c in r.children() {
                    walk(c, active, inc, changed);
                }
            }
        }
    }
    loop {
        let mut changed = false;
        for i in 0..g.rules.len() {
            if let Some(b) = &g.rules[i].body {
                let a = inc[i];
                walk(b, a, &mut inc, &mut changed);
            }
        }
        if !changed {
            break;
        }
    }
    inc
}

/// Turn ordered choices that would be nested in an active choice (directly or through rule
/// references) into plain alternations.
pub fn denest_choices(g: &mut Grammar) {
    fn walk(r: &mut Regex, active: bool, changed: &mut bool) {
        match r {
            Regex::Choice(v) if active => {
                let v = std::mem::take(v);
                *r = Regex::Alt(v);
                *changed = true;
                walk(r, active, changed);
            }
            Regex::Choice(v) => {
                let n = v.len();
                for (i, c) in v.iter_mut().enumerate() {
                    walk(c, i + 1 < n, changed);
                }
            }
            Regex::Concat(v) => {
                let mut a = active;
                for c in v.iter_mut() {
                    walk(c, a, changed);
                    if matches!(c, Regex::Commit) {
                        a = false;
                    }
                }
            }
            _ => {
                for c in r.children_mut() {
                    walk(c, active, changed);
                }
            }
        }
    }
    loop {
        let inc = in_choice_rules(g);
        let mut changed = false;
        for (i, rule) in g.rules.iter_mut().enumerate() {
            if let Some(b) = rule.body.as_mut() {
                walk(b, inc[i], &mut changed);
            }
        }
        if !changed {
            break;
        }
        for r in g.rules.iter_mut() {
            if let Some(body) = r.body.take() {
                r.body = Some(body.normalize());
            }
        }
    }
}

struct Deco<'x, 'p, 'd> {
    b: &'x mut Builder<'p, 'd>,
    rule: usize,
    is_start: bool,
    is_pratt: bool,
    next_marker: u32,
    /// allow `^`
    allow_elide: bool,
    allow_create_whole: bool,
    /// number of marker ranges currently open around the position being decorated
    open_markers: usize,
}

const NODE_NAMES: [&str; 4] = ["n0", "n1", "n2", "n3"];

impl Deco<'_, '_, '_> {
    fn node_name(&mut self) -> String {
        let k = self.b.d.below(NODE_NAMES.len() + 1);
        if k < NODE_NAMES.len() {
            NODE_NAMES[k].to_string()
        } else {
            // reuse a rule name: legal, shares the node kind
            let r = self.b.d.below(self.b.g.rules.len());
            self.b.g.rules[r].name.clone()
        }
    }
    /// Decorate a list of concat elements. `ctx_first_pred`: a predicate is legal at the front.
    /// `active_choice`: inside an undoable attempt (no actions; commit is meaningful).
    fn list(&mut self, items: Vec<Regex>, pred_ok: bool, active_choice: bool, left_rec_branch: bool) -> Vec<Regex> {
        let p = self.b.p.clone();
        let mut out: Vec<Regex> = vec![];
        if pred_ok && !left_rec_branch {
            if p.preds && self.b.d.chance(1, 6) {
                let n = 1 + self.b.d.below(2) as u32;
                out.push(Regex::Pred(Some(n)));
            } else if p.pred_t && self.b.d.chance(1, 10) {
                out.push(Regex::Pred(None));
            }
        }
        if p.returns && p.leading_return && !self.is_start && !left_rec_branch && self.b.d.chance(1, 20) {
            out.push(Regex::Return);
        }
        let mut active = active_choice;
        let n_items = items.len();
        // marker/creation pair over a random sub-range
        let mut pair: Option<(usize, usize, u32, Option<String>)> = None;
        let mut lone_marker = false;
        if p.nodeops && !left_rec_branch && n_items >= 1 && self.b.d.chance(1, 5) {
            let a = self.b.d.below(n_items);
            let z = a + 1 + self.b.d.below(n_items - a);
            let k = self.next_marker;
            self.next_marker += 1;
            let name = if self.b.d.chance(3, 4) { Some(self.node_name()) } else { None };
            pair = Some((a, z, k, name));
            // now and then the creation is left out: an unused marker (warning only)
            lone_marker = self.b.d.chance(1, 8);
        }
        for (i, it) in items.into_iter().enumerate() {
            if let Some((a, _, k, _)) = &pair {
                if *a == i {
                    out.push(Regex::Marker(*k));
                }
            }
            if p.asserts && self.b.d.chance(1, 14) {
                let n = 1 + self.b.d.below(2) as u32;
                if p.paren_deco && self.b.d.chance(1, 4) {
                    out.push(Regex::Paren(Some(Box::new(Regex::Assert(n)))));
                } else {
                    out.push(Regex::Assert(n));
                }
            }
            let skip_first_of_left_rec = left_rec_branch && i == 0;
            let inside_pair = !lone_marker && pair.as_ref().is_some_and(|(a, z, _, _)| *a <= i && i < *z);
            if inside_pair {
                self.open_markers += 1;
            }
            let it = if skip_first_of_left_rec { it } else { self.regex(it, active) };
            if inside_pair {
                self.open_markers -= 1;
            }
            out.push(it);
            if let Some((_, z, k, name)) = &pair {
                if *z == i + 1 && !lone_marker {
                    out.push(Regex::Create(Some(*k), name.clone()));
                }
            }
            if p.actions && !active && self.b.d.chance(1, 10) {
                let n = 1 + self.b.d.below(2) as u32;
                if p.paren_deco && self.b.d.chance(1, 4) {
                    out.push(Regex::Paren(Some(Box::new(Regex::Action(n)))));
                } else {
                    out.push(Regex::Action(n));
                }
            }
            if p.choice && active && self.b.d.chance(1, 8) {
                out.push(Regex::Commit);
                active = false;
            }
            if p.returns && !self.is_start && !left_rec_branch && self.b.d.chance(1, 16) {
                out.push(Regex::Return);
            }
        }
        if p.nodeops {
            // rename / elision: at the end of the list or, half of the time, somewhere inside
            // it (what was visited before a later ordered choice or loop must survive it)
            let place = |out: &mut Vec<Regex>, r: Regex, d: &mut Dice<'_>| {
                if d.chance(1, 2) || out.len() < 2 {
                    out.push(r);
                } else {
                    // never in front of a leading predicate
                    let lo = if matches!(out.first(), Some(Regex::Pred(_))) { 2 } else { 1 };
                    let pos = lo.min(out.len()) + d.below(out.len() + 1 - lo.min(out.len()));
                    out.insert(pos, r);
                }
            };
            if (!self.is_start || p.c11_shapes) && self.b.d.chance(1, 7) {
                let name = self.node_name();
                if p.paren_deco && self.b.d.chance(1, 4) {
                    place(&mut out, Regex::Paren(Some(Box::new(Regex::Rename(name)))), &mut self.b.d);
                } else {
                    place(&mut out, Regex::Rename(name), &mut self.b.d);
                }
            }
            if self.allow_elide && !left_rec_branch && self.b.d.chance(1, 8) {
                place(&mut out, Regex::Elide, &mut self.b.d);
            }
            // state set in front of an ordered choice must survive the alternatives it abandons
            fn holds_choice(r: &Regex) -> bool {
                match r {
                    Regex::Choice(_) => true,
                    Regex::Paren(Some(b)) => holds_choice(b),
                    _ => false,
                }
            }
            if let Some(ci) = out.iter().position(holds_choice) {
                if ci > 0 && !left_rec_branch && !matches!(out[ci - 1], Regex::Pred(_)) && self.b.d.chance(1, 3) {
                    if self.allow_elide && self.b.d.chance(1, 2) {
                        out.insert(ci, Regex::Elide);
                    } else if !self.is_start || p.c11_shapes {
                        let name = self.node_name();
                        out.insert(ci, Regex::Rename(name));
                    }
                }
            }
            // an unindexed creation reaches back to the start of the rule: inside an open marker
            // range or an undoable attempt it would cross them (only generated on request)
            let crossing_ok = p.crossing || (self.open_markers == 0 && !active_choice);
            if self.allow_create_whole && !self.is_pratt && crossing_ok && self.b.d.chance(1, 8) {
                let name = if self.b.d.chance(1, 2) { Some(self.node_name()) } else { None };
                out.push(Regex::Create(None, name));
            }
        }
        out
    }
    fn as_list(r: Regex) -> Vec<Regex> {
        match r {
            Regex::Concat(v) => v,
            x => vec![x],
        }
    }
    fn from_list(mut v: Vec<Regex>) -> Regex {
        if v.len() == 1 { v.pop().unwrap() } else if v.is_empty() { Regex::Paren(None) } else { Regex::Concat(v) }
    }
    /// Decorate inside `r` (r itself is an element of some list or a body).
    fn regex(&mut self, r: Regex, active: bool) -> Regex {
        match r {
            Regex::Concat(v) => {
                // nested concat only arises below a paren after normalisation; treat as list
                Self::from_list(self.list(v, false, active, false))
            }
            Regex::Alt(v) => Regex::Alt(v.into_iter().map(|c| Self::from_list(self.list(Self::as_list(c), true, active, false))).collect()),
            Regex::Choice(v) => {
                let n = v.len();
                Regex::Choice(
                    v.into_iter()
                        .enumerate()
                        .map(|(i, c)| {
                            let a = if i + 1 < n { true } else { active };
                            Self::from_list(self.list(Self::as_list(c), false, a, false))
                        })
                        .collect(),
                )
            }
            Regex::Opt(b) => Regex::Opt(Box::new(Self::from_list(self.list(Self::as_list(*b), true, active, false)))),
            Regex::Star(b) => Regex::Star(Box::new(self.loop_body(*b, active))),
            Regex::Plus(b) => Regex::Plus(Box::new(self.loop_body(*b, active))),
            Regex::Paren(Some(b)) => Regex::Paren(Some(Box::new(self.regex(*b, active)))),
            x => x,
        }
    }
    fn loop_body(&mut self, b: Regex, active: bool) -> Regex {
        // body of * / + is postfix-level: decorate inside a paren if it is one
        match b {
            Regex::Paren(Some(inner)) => Regex::Paren(Some(Box::new(Self::from_list(self.list(Self::as_list(*inner), true, active, false))))),
            x => self.regex(x, active),
        }
    }
    fn body(&mut self, r: Regex, active: bool) -> Regex {
        if self.is_pratt {
            if let Regex::Alt(v) = r {
                let rule = self.rule;
                return Regex::Alt(
                    v.into_iter()
                        .map(|c| {
                            let rec = matches!(&c, Regex::Concat(x) if x.first() == Some(&Regex::Ref(rule)) || x.last() == Some(&Regex::Ref(rule)));
                            if rec {
                                // recursive operator branches: trailing rename / action only (I-6)
                                let mut items = Self::as_list(c);
                                // a rename in front of the left operand names the operator node too
                                if self.b.p.nodeops && items.first() == Some(&Regex::Ref(rule)) && self.b.d.chance(1, 6) {
                                    let name = self.node_name();
                                    items.insert(0, Regex::Rename(name));
                                }
                                if self.b.p.preds && self.b.d.chance(1, 6) {
                                    items.insert(0, Regex::Pred(Some(1)));
                                }
                                if self.b.p.nodeops && self.b.d.chance(1, 2) {
                                    let name = self.node_name();
                                    items.push(Regex::Rename(name));
                                }
                                if self.b.p.actions && !active && self.b.d.chance(1, 8) {
                                    items.push(Regex::Action(1));
                                }
                                Self::from_list(items)
                            } else {
                                Self::from_list(self.list(Self::as_list(c), true, active, false))
                            }
                        })
                        .collect(),
                );
            }
        }
        match r {
            Regex::Alt(_) | Regex::Choice(_) => self.regex(r, active),
            x => Self::from_list(self.list(Self::as_list(x), false, active, false)),
        }
    }
}

/// Build a grammar from a choice stream.
pub fn build(p: &Profile, data: &[u32]) -> Grammar {
    let mut b = Builder {
        p,
        d: Dice::new(data),
        g: Grammar { tokens: vec![], skip: vec![], right: vec![], start: 0, parts: vec![], rules: vec![], order: None },
        reserved: vec![],
        n_plain: 0,
    };
    let n_rules = 1 + b.d.below(p.max_rules);
    let n_tokens = 2 + b.d.below(p.max_tokens - 1);
    for _ in 0..n_tokens {
        b.fresh_token(false);
    }
    b.n_plain = n_tokens;
    for i in 0..n_rules {
        b.g.rules.push(Rule { name: format!("r{i}"), elided: false, body: None });
    }
    for i in 0..n_rules {
        let body = if p.pratt && i != 0 && b.d.chance(1, 4) {
            b.gen_pratt(i, n_rules)
        } else if p.empty_rules && i > 0 && b.d.chance(1, 16) {
            None
        } else {
            let depth = 1 + b.d.below(p.depth);
            Some(b.gen_regex(i, n_rules, depth))
        };
        b.g.rules[i].body = body.map(|x| x.normalize());
    }
    // productivity: give every unproductive rule a token alternative
    loop {
        let prod = refan::productive_rules(&b.g);
        let Some(u) = prod.iter().position(|x| !*x) else { break };
        let t = b.plain_tok();
        let old = b.g.rules[u].body.take().unwrap();
        b.g.rules[u].body = Some(match old {
            Regex::Alt(mut v) => {
                v.push(t);
                Regex::Alt(v)
            }
            o => Regex::Alt(vec![o, t]).normalize(),
        });
    }
    // reachability: unreferenced rules become parts, get attached, or are dropped
    let mut left_unreachable: Vec<usize> = vec![];
    loop {
        let reach = refan::reachable_rules(&b.g, true);
        let Some(u) = reach.iter().enumerate().position(|(i, r)| !*r && !left_unreachable.contains(&i)) else { break };
        if p.unreachable_rules && b.d.chance(1, 3) {
            left_unreachable.push(u);
            continue;
        }
        let how = b.d.below(3);
        if how == 1 && p.parts {
            b.g.parts.push(u);
        } else {
            // attach at the end of an earlier reachable rule (0 = start)
            let cands: Vec<usize> = (0..u).filter(|i| reach[*i] && b.g.rules[*i].body.is_some() && !b.g.is_pratt(*i)).collect();
            if cands.is_empty() {
                if p.parts {
                    b.g.parts.push(u);
                } else {
                    // no host: reference it from the start rule body
                    let old = b.g.rules[0].body.take();
                    b.g.rules[0].body = Some(match old {
                        Some(o) if !b.g.is_pratt(0) => Regex::Concat(vec![o, Regex::Ref(u)]).normalize(),
                        Some(o) => {
                            b.g.parts.push(u);
                            o
                        }
                        None => Regex::Ref(u),
                    });
                }
            } else {
                let host = cands[b.d.below(cands.len())];
                let old = b.g.rules[host].body.take().unwrap();
                let wrapped = match b.d.below(3) {
                    0 => Regex::Ref(u),
                    1 => Regex::Opt(Box::new(Regex::Ref(u))),
                    _ => Regex::Star(Box::new(Regex::Ref(u))),
                };
                b.g.rules[host].body = Some(Regex::Concat(vec![old, wrapped]).normalize());
            }
        }
    }
    // productivity (again: attaching rules can close a cycle): give every unproductive rule a token alternative
    loop {
        let prod = refan::productive_rules(&b.g);
        let Some(u) = prod.iter().position(|x| !*x) else { break };
        let t = b.plain_tok();
        let old = b.g.rules[u].body.take().unwrap();
        b.g.rules[u].body = Some(match old {
            Regex::Alt(mut v) => {
                v.push(t);
                Regex::Alt(v)
            }
            o => Regex::Alt(vec![o, t]).normalize(),
        });
    }
    if p.choice {
        denest_choices(&mut b.g);
    }
    if p.repair {
        repair(&mut b);
    }
    // rule-level elision
    if p.nodeops {
        for i in 1..n_rules {
            if !b.g.is_pratt(i) && !b.g.parts.contains(&i) && b.d.chance(1, 6) {
                b.g.rules[i].elided = true;
            }
        }
    }
    // decorations
    let need_deco = p.nodeops || p.actions || p.preds || p.pred_t || p.asserts || p.returns || p.choice;
    if need_deco {
        for i in 0..n_rules {
            let inc = in_choice_rules(&b.g);
            let is_pratt = b.g.is_pratt(i);
            let Some(body) = b.g.rules[i].body.take() else { continue };
            let is_start = i == b.g.start;
            let elided = b.g.rules[i].elided;
            let mut d = Deco {
                rule: i,
                is_start,
                is_pratt,
                next_marker: 1,
                allow_elide: !is_start && !elided,
                allow_create_whole: true,
                open_markers: 0,
                b: &mut b,
            };
            let nb = d.body(body, inc[i]).normalize();
            b.g.rules[i].body = Some(nb);
        }
        // a conditional elision makes unindexed creation legal too; keep it simple: only with `^` rules
    }
    // skipped tokens
    if p.skips {
        let n = b.d.below(3);
        for _ in 0..n {
            if let Some(t) = b.fresh_token(true) {
                b.g.skip.push(t);
            }
        }
    }
    if p.shuffle_decls {
        let mut decls = vec![];
        // split the token list in up to three lists
        let nt = b.g.tokens.len();
        let cuts = b.d.below(3);
        let mut lists: Vec<Vec<usize>> = vec![vec![]; cuts + 1];
        for t in 0..nt {
            let k = b.d.below(cuts + 1);
            lists[k].push(t);
        }
        for l in lists {
            if !l.is_empty() {
                decls.push(Decl::Tokens(l));
            }
        }
        if !b.g.skip.is_empty() {
            decls.push(Decl::Skip(b.g.skip.iter().map(|t| (*t, b.g.tokens[*t].symbol.is_some() && *t % 2 == 0)).collect()));
        }
        if !b.g.right.is_empty() {
            decls.push(Decl::Right(b.g.right.iter().map(|t| (*t, b.g.tokens[*t].symbol.is_some() && *t % 2 == 1)).collect()));
        }
        decls.push(Decl::Start);
        if !b.g.parts.is_empty() {
            decls.push(Decl::Part(b.g.parts.clone()));
        }
        for i in 0..n_rules {
            decls.push(Decl::Rule(i));
        }
        // Fisher-Yates with dice (0 = identity)
        for i in (1..decls.len()).rev() {
            let j = i - b.d.below(i + 1);
            decls.swap(i, j);
        }
        b.g.order = Some(decls);
    }
    b.g
}

/// Random permutation of the top-level declarations of `g` (token lists optionally re-split).
pub fn permute_decls(g: &Grammar, d: &mut Dice<'_>) -> Grammar {
    let mut decls = vec![];
    for dcl in g.decls() {
        match dcl {
            Decl::Tokens(ts) if ts.len() > 1 && d.chance(1, 2) => {
                let cut = 1 + d.below(ts.len() - 1);
                decls.push(Decl::Tokens(ts[..cut].to_vec()));
                decls.push(Decl::Tokens(ts[cut..].to_vec()));
            }
            x => decls.push(x),
        }
    }
    for i in (1..decls.len()).rev() {
        let j = d.below(i + 1);
        decls.swap(i, j);
    }
    Grammar { order: Some(decls), ..g.clone() }
}

pub fn terminals_of(g: &Grammar) -> TS {
    let mut t = TS::default();
    for i in 0..g.tokens.len() {
        t.insert(i);
    }
    t
}
