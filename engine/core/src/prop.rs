//! Running an in-process property over choice streams with proptest (generation + shrinking),
//! sharded over threads; each shard is a proptest `TestRunner` with its own fixed seed.

use crate::dice;
use crate::ev::{Evidence, Findings, Tier, Violation};
use proptest::test_runner::{TestCaseError, TestError};
use std::cell::{Cell, RefCell};

pub struct PropOut {
    pub ev: Evidence,
    pub violations: Vec<Violation>,
    pub known_hits: Vec<Violation>,
}

/// `f(stream, evidence, counting)`: Ok(()) if the property held (or the case is outside the
/// domain — say so through `evidence.exclude`), Err(v) for a violation.
pub fn run_prop<F>(id: &str, tier: Tier, seed: u64, stage: &str, cases: u32, threads: usize, max_len: usize, f: F) -> PropOut
where
    F: Fn(&[u32], &mut Evidence) -> Result<(), Violation> + Sync,
{
    let known = Findings::load();
    let per = cases.div_ceil(threads as u32);
    let outs: Vec<PropOut> = std::thread::scope(|s| {
        let handles: Vec<_> = (0..threads)
            .map(|t| {
                let f = &f;
                let known = &known;
                s.spawn(move || {
                    let ev = RefCell::new(Evidence::new(id, tier, seed, ""));
                    let scratch = RefCell::new(Evidence::new(id, tier, seed, ""));
                    let failed = Cell::new(false);
                    let known_hits = RefCell::new(Vec::<Violation>::new());
                    let mut runner = dice::runner(dice::mix(seed, &[dice::tag(id), dice::tag(stage), t as u64]), per);
                    let strat = dice::stream_strategy(max_len);
                    let res = runner.run(&strat, |v| {
                        let r = if failed.get() { f(&v, &mut scratch.borrow_mut()) } else { f(&v, &mut ev.borrow_mut()) };
                        match r {
                            Ok(()) => Ok(()),
                            Err(viol) => {
                                if known.known(id, &viol.sig).is_some() {
                                    if !failed.get() {
                                        let mut k = known_hits.borrow_mut();
                                        if k.len() < 1000 {
                                            k.push(viol);
                                        }
                                    }
                                    Ok(())
                                } else {
                                    failed.set(true);
                                    Err(TestCaseError::fail(viol.sig))
                                }
                            }
                        }
                    });
                    let mut violations = vec![];
                    if let Err(TestError::Fail(_, min)) = res {
                        failed.set(true);
                        if let Err(v) = f(&min, &mut scratch.borrow_mut()) {
                            violations.push(v);
                        }
                    } else if let Err(TestError::Abort(r)) = res {
                        eprintln!("proptest aborted: {r}");
                    }
                    PropOut { ev: ev.into_inner(), violations, known_hits: known_hits.into_inner() }
                })
            })
            .collect();
        handles.into_iter().map(|h| h.join().unwrap()).collect()
    });
    let mut ev = Evidence::new(id, tier, seed, "");
    let mut violations = vec![];
    let mut known_hits = vec![];
    for o in outs {
        ev.merge(o.ev);
        violations.extend(o.violations);
        known_hits.extend(o.known_hits);
    }
    PropOut { ev, violations, known_hits }
}
