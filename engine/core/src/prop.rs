//! Running an in-process property over choice streams with proptest (generation + shrinking),
//! sharded over threads; each shard is a proptest `TestRunner` with its own fixed seed.

use crate::dice;
use crate::ev::{Evidence, Findings, Tier, Violation};
use proptest::test_runner::{TestCaseError, TestError};
use std::cell::{Cell, RefCell};
use std::sync::{Arc, Mutex};
use std::time::{Duration, Instant};

/// what a thread is evaluating right now (for the hang watchdog)
#[derive(Default)]
pub struct Slot {
    since: Option<Instant>,
    id: String,
    origin: String,
    note: String,
}

thread_local! {
    static SLOT: RefCell<Option<Arc<Mutex<Slot>>>> = const { RefCell::new(None) };
}
static REGISTRY: Mutex<Vec<Arc<Mutex<Slot>>>> = Mutex::new(Vec::new());
static WATCHDOG: std::sync::Once = std::sync::Once::new();

pub struct CaseGuard(Option<Arc<Mutex<Slot>>>);
impl Drop for CaseGuard {
    fn drop(&mut self) {
        if let Some(s) = &self.0 {
            if let Ok(mut g) = s.lock() {
                g.since = None;
            }
        }
    }
}

/// Oracles that evaluate lelwel on a text open a case first, so that an evaluation which never
/// returns can be noticed (by a process-wide watchdog thread) and named. Nested guards (an
/// oracle calling another) keep the outermost start time.
pub fn case_guard(id: &str, origin: &str, text: &str) -> CaseGuard {
    if std::env::var("VERIF_NO_WATCHDOG").is_ok() {
        return CaseGuard(None);
    }
    let slot = SLOT.with(|s| {
        let mut b = s.borrow_mut();
        if b.is_none() {
            let a = Arc::new(Mutex::new(Slot::default()));
            if let Ok(mut r) = REGISTRY.lock() {
                r.push(a.clone());
            }
            *b = Some(a);
        }
        b.clone().unwrap()
    });
    WATCHDOG.call_once(|| {
        std::thread::spawn(|| {
            let limit = hang_limit();
            loop {
                std::thread::sleep(Duration::from_millis(500));
                let slots: Vec<Arc<Mutex<Slot>>> = REGISTRY.lock().map(|r| r.clone()).unwrap_or_default();
                for sl in slots {
                    let hit = match sl.lock() {
                        Ok(g) if g.since.is_some_and(|t| t.elapsed().as_secs() >= limit) => Some((g.id.clone(), g.origin.clone(), g.note.clone())),
                        _ => None,
                    };
                    if let Some((id, origin, note)) = hit {
                        hang_found(&id, &origin, &note, limit);
                    }
                }
            }
        });
    });
    let mut nested = false;
    if let Ok(mut g) = slot.lock() {
        if g.since.is_some() {
            nested = true;
        } else {
            g.since = Some(Instant::now());
            g.id = id.to_string();
            g.origin = origin.to_string();
            g.note.clear();
            g.note.push_str(text);
        }
    }
    if nested { CaseGuard(None) } else { CaseGuard(Some(slot)) }
}

/// seconds after which a single case (normally micro- to milliseconds) counts as not returning
pub fn hang_limit() -> u64 {
    std::env::var("VERIF_HANG_S").ok().and_then(|s| s.parse().ok()).unwrap_or(40)
}

/// Run `f` on its own thread; None if it has not returned after `secs` (the thread is leaked).
pub fn with_deadline<T: Send + 'static>(secs: u64, f: impl FnOnce() -> T + Send + 'static) -> Option<T> {
    let (tx, rx) = std::sync::mpsc::channel();
    std::thread::Builder::new()
        .stack_size(64 << 20)
        .spawn(move || {
            let _ = tx.send(f());
        })
        .ok()?;
    rx.recv_timeout(Duration::from_secs(secs)).ok()
}

/// A case has been running for longer than the limit. A wall-clock observation is no verdict:
/// the text is written as a replay file and re-evaluated in a fresh process (whose replay path
/// applies the same deadline and reports through the ordinary VIOLATION line). Only if the
/// fresh process also fails to return is it reported; if it returns normally the run is
/// inconclusive (exit 2).
fn hang_found(id: &str, stage: &str, note: &str, secs: u64) -> ! {
    if note.is_empty() {
        eprintln!("inconclusive: a case of stage {stage} has been running for more than {secs} s (no replayable text recorded)");
        std::process::exit(2);
    }
    let dir = crate::ev::root().join("replays").join("new");
    let _ = std::fs::create_dir_all(&dir);
    let body = serde_json::to_string_pretty(&serde_json::json!({"property": id, "signature": "no-return", "what": format!("a case of stage {stage} did not return within {secs} s"), "replay": {"text": note, "origin": format!("watchdog:{stage}")}})).unwrap();
    let path = dir.join(format!("{id}-{:016x}.json", crate::ev::hash64(&body)));
    let _ = std::fs::write(&path, body);
    let exe = std::env::current_exe().unwrap();
    let child = std::process::Command::new(exe).arg(id).arg("--replay").arg(&path).spawn();
    let Ok(mut child) = child else {
        eprintln!("inconclusive: a case did not return within {secs} s and the confirmation process could not be started");
        std::process::exit(2);
    };
    let t0 = Instant::now();
    loop {
        match child.try_wait() {
            Ok(Some(st)) => {
                if st.code() == Some(1) {
                    // the fresh process has printed the VIOLATION line
                    std::process::exit(1);
                }
                eprintln!("inconclusive: a case did not return within {secs} s here but does in a fresh process ({st})");
                std::process::exit(2);
            }
            Ok(None) if t0.elapsed().as_secs() > 4 * secs + 60 => {
                let _ = child.kill();
                eprintln!("inconclusive: the confirmation process itself did not return");
                std::process::exit(2);
            }
            Ok(None) => std::thread::sleep(Duration::from_millis(200)),
            Err(_) => std::process::exit(2),
        }
    }
}

pub struct PropOut {
    pub ev: Evidence,
    pub violations: Vec<Violation>,
    pub known_hits: Vec<Violation>,
}

/// `f(stream, evidence, counting)`: Ok(()) if the property held (or the case is outside the
/// domain — say so through `evidence.exclude`), Err(v) for a violation.
pub fn run_prop<F>(id: &str, tier: Tier, seed: u64, stage: &str, cases: u32, threads: usize, max_len: usize, f: F) -> PropOut
where
    F: Fn(&[u32], &mut Evidence) -> Result<(), Violation> + Sync,
{
    let known = Findings::load();
    let per = cases.div_ceil(threads as u32);
    let outs: Vec<PropOut> = std::thread::scope(|s| {
        let handles: Vec<_> = (0..threads)
            .map(|t| {
                let f = &f;
                let known = &known;
                s.spawn(move || {
                    let ev = RefCell::new(Evidence::new(id, tier, seed, ""));
                    let scratch = RefCell::new(Evidence::new(id, tier, seed, ""));
                    let failed = Cell::new(false);
                    let known_hits = RefCell::new(Vec::<Violation>::new());
                    let mut runner = dice::runner(dice::mix(seed, &[dice::tag(id), dice::tag(stage), t as u64]), per);
                    let strat = dice::stream_strategy(max_len);
                    let res = runner.run(&strat, |v| {
                        let r = if failed.get() { f(&v, &mut scratch.borrow_mut()) } else { f(&v, &mut ev.borrow_mut()) };
                        match r {
                            Ok(()) => Ok(()),
                            Err(viol) => {
                                if known.known(id, &viol.sig).is_some() {
                                    if !failed.get() {
                                        let mut k = known_hits.borrow_mut();
                                        if k.len() < 1000 {
                                            k.push(viol);
                                        }
                                    }
                                    Ok(())
                                } else {
                                    failed.set(true);
                                    Err(TestCaseError::fail(viol.sig))
                                }
                            }
                        }
                    });
                    let mut violations = vec![];
                    if let Err(TestError::Fail(_, min)) = res {
                        failed.set(true);
                        if let Err(v) = f(&min, &mut scratch.borrow_mut()) {
                            violations.push(v);
                        }
                    } else if let Err(TestError::Abort(r)) = res {
                        eprintln!("proptest aborted: {r}");
                    }
                    PropOut { ev: ev.into_inner(), violations, known_hits: known_hits.into_inner() }
                })
            })
            .collect();
        handles.into_iter().map(|h| h.join().unwrap()).collect()
    });
    let mut ev = Evidence::new(id, tier, seed, "");
    let mut violations = vec![];
    let mut known_hits = vec![];
    for o in outs {
        ev.merge(o.ev);
        violations.extend(o.violations);
        known_hits.extend(o.known_hits);
    }
    PropOut { ev, violations, known_hits }
}
