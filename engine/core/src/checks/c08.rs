//! C08 — ordered-choice backtracking leaves no trace.

use super::Ctx;
use super::c01::{sig_of, standard_requests};
use super::c05::compare_accept;
use crate::dice::{self, Dice};
use crate::ev::{Evidence, Tier};
use crate::ggen::Profile;
use crate::gm::*;
use crate::inputs;
use crate::interp::{Interp, Outcome};
use crate::lab::{self, Event, Reply, Req, Status};
use crate::labrun::{self, GInfo, LabProp, Verdict};
use crate::tree;

pub struct P08;

const RULE: &str = "accepted grammars with ordered choices (with and without commit, node operators, skipped tokens, assertions with scripted position-dependent outcomes, rules shared between choice alternatives and ordinary contexts, choices inside loops and next to other constructs; no ?n, no &), each with inert probe assertions planted at the start of every alternative and directly after every choice; inputs valid and invalid up to length 16, all entry points. Oracles: (1) reference interpreter with value semantics: accepted => same tree, same actions, no diagnostic beyond scripted assertion diagnostics; rejected => >= 1 diagnostic and (unscripted runs) the first diagnostic lies on the token where the prioritised deterministic parse cannot continue; (2) probes: state seen at the start of a later alternative == state at the start of the abandoned one (position, current token, node vector, token count, error flags); after the choice the parser is not in try mode; (3) accounting: every node announced created and absent from the final tree has a deleted announcement, no action fires in try mode. non-trivial = an attempt was abandoned after creating >= 1 node, or the input errs in a rule that is shared with a completed choice; distinct = (grammar, input, modes)";

/// assertion outcome script shared with the runner (templates/module.rs.tmpl::h_assert)
pub fn assert_script(seed: u64, amode: u8) -> impl Fn(&str, u32, usize) -> bool {
    move |rule: &str, n: u32, nt_pos: usize| amode != 0 && n < 90 && dice::mix(seed, &[dice::tag(rule), n as u64, nt_pos as u64, 77]) % 3 == 0
}

pub fn plant_probes(g: &Grammar) -> Grammar {
    let mut g = g.clone();
    let mut counter = 0u32;
    fn rec(r: Regex, counter: &mut u32) -> Regex {
        match r {
            Regex::Choice(v) => {
                let c = *counter;
                *counter += 1;
                let alts: Vec<Regex> = v
                    .into_iter()
                    .enumerate()
                    .map(|(i, a)| {
                        let a = rec(a, counter);
                        let probe = Regex::Assert(1000 + c * 10 + i as u32);
                        match a {
                            Regex::Concat(mut items) => {
                                items.insert(0, probe);
                                Regex::Concat(items)
                            }
                            x => Regex::Concat(vec![probe, x]),
                        }
                    })
                    .collect();
                Regex::Concat(vec![Regex::Choice(alts), Regex::Assert(1000 + c * 10 + 9)])
            }
            Regex::Concat(v) => Regex::Concat(v.into_iter().map(|x| rec(x, counter)).collect()),
            Regex::Alt(v) => Regex::Alt(v.into_iter().map(|x| rec(x, counter)).collect()),
            Regex::Opt(b) => Regex::Opt(Box::new(rec(*b, counter))),
            Regex::Star(b) => Regex::Star(Box::new(rec(*b, counter))),
            Regex::Plus(b) => Regex::Plus(Box::new(rec(*b, counter))),
            Regex::Paren(Some(b)) => Regex::Paren(Some(Box::new(rec(*b, counter)))),
            x => x,
        }
    }
    for i in 0..g.rules.len() {
        if g.is_pratt(i) {
            continue;
        }
        if let Some(b) = g.rules[i].body.take() {
            g.rules[i].body = Some(rec(b, &mut counter).normalize());
        }
    }
    g
}

fn snapshot_key(v: &serde_json::Value, nodes: &str) -> String {
    format!("{}|{}|{}|{}|{}|{}|{}|{}", v["pos"], v["cur"], v["nodes"], v["tokc"], v["esa"], v["en"], v["nsl"], nodes)
}

pub fn check_probes(rep: &Reply) -> Result<usize, (String, String)> {
    use std::collections::BTreeMap;
    // per choice: (alternative index, snapshot key) of the most recent alternative probe
    let mut last: BTreeMap<u64, (u64, String)> = BTreeMap::new();
    let mut compared = 0;
    for e in &rep.log {
        let Event::Assert(rule, n, _, snap, nodes) = e else { continue };
        if *n < 1000 {
            continue;
        }
        let c = (*n - 1000) / 10;
        let i = (*n - 1000) % 10;
        if i == 9 {
            last.remove(&c);
            if snap["ioc"].as_bool() == Some(true) {
                return Err(("try-mode-after-choice".into(), format!("after the ordered choice in rule {rule} the parser is still in try mode (mismatches are no longer reported)")));
            }
            continue;
        }
        let key = snapshot_key(snap, nodes);
        if let Some((j, k0)) = last.get(&c) {
            if *j < i {
                compared += 1;
                if *k0 != key {
                    let a: Vec<&str> = k0.split('|').collect();
                    let b: Vec<&str> = key.split('|').collect();
                    let names = ["pos", "current", "node-count", "token-count", "error-flag", "error-node", "non-skip-len", "nodes"];
                    let diff: Vec<&str> = (0..8).filter(|i| a.get(*i) != b.get(*i)).map(|i| names[i]).collect();
                    let only_error_state = diff.iter().all(|d| ["error-flag", "error-node", "nodes"].contains(d)) && a.get(2) == b.get(2);
                    let sig = if only_error_state { "state-not-restored:error-state".to_string() } else { format!("state-not-restored:{}", diff.join("+")) };
                    return Err((sig, format!("rule {rule}: state at the start of alternative {i} differs from the state at the start of abandoned alternative {j}: {k0} vs {key}")));
                }
            }
        }
        last.insert(c, (i, key));
    }
    Ok(compared)
}

impl LabProp for P08 {
    fn id(&self) -> &'static str {
        "C08"
    }
    fn rule(&self) -> &'static str {
        RULE
    }
    fn profiles(&self, _t: Tier) -> Vec<Profile> {
        vec![
            Profile { choice: true, choice_weight: 8, skips: true, max_rules: 4, shuffle_decls: true, ..Profile::base("choice") },
            Profile { choice: true, choice_weight: 8, nodeops: true, asserts: true, skips: true, parts: true, ..Profile::base("choice-nodeops-asserts") },
            Profile { choice: true, choice_weight: 8, nodeops: true, pratt: true, actions: true, skips: true, ..Profile::base("choice-pratt-actions") },
            Profile { choice: true, choice_weight: 12, max_rules: 3, depth: 2, max_tokens: 3, ..Profile::base("choice-small") },
        ]
    }
    fn n_grammars(&self, t: Tier) -> usize {
        t.pick(120, 1500)
    }
    fn domain(&self, g: &Grammar, _i: &GInfo) -> Result<(), &'static str> {
        if !g.any_regex(&|r| matches!(r, Regex::Choice(_))) {
            return Err("no ordered choice");
        }
        if g.any_regex(&|r| matches!(r, Regex::Pred(Some(_)) | Regex::Return)) {
            return Err("has ?n or &");
        }
        if !crossing_shapes(g).is_empty() {
            return Err("node creation crossing a marker or an undoable attempt (not properly nested)");
        }
        if g.rules.iter().any(|r| r.body.is_none()) || g.any_regex(&|r| matches!(r, Regex::Paren(None))) {
            return Err("empty rule body");
        }
        Ok(())
    }
    fn transform(&self, g: &Grammar) -> Option<Grammar> {
        Some(plant_probes(g))
    }
    fn requests(&self, g: &Grammar, _i: &GInfo, gi: usize, d: &mut Dice<'_>, t: Tier) -> Vec<Req> {
        let mut v = standard_requests(g, gi, d, t.pick(130, 300), 16);
        for r in v.iter_mut() {
            r.smode = 0;
            r.pmode = 1;
        }
        v
    }
    fn judge(&self, g: &Grammar, info: &GInfo, req: &Req, rep: &Reply, _m: &mut dyn FnMut(&Req) -> Reply, ev: &mut Evidence) -> Verdict {
        if rep.status != Status::Ok {
            ev.exclude("parse did not return (C03 matter)");
            return Ok(());
        }
        // (3) accounting
        for e in &rep.log {
            if let Event::Action(r, n, true, _) = e {
                return Err(("action-in-try-mode".into(), format!("semantic action #{n} of rule {r} ran while an undoable attempt was active")));
            }
        }
        tree::check_callbacks(rep, true).map_err(|m| (sig_of("accounting", &m), m))?;
        // (1) reference
        let idx: Vec<usize> = (0..req.tokens.len()).filter(|i| req.tokens[*i] != lab::ERROR_KIND && !g.skip.contains(&req.tokens[*i])).collect();
        let toks: Vec<usize> = idx.iter().map(|i| req.tokens[*i]).collect();
        let script = assert_script(req.seed, req.amode);
        let rule = if req.entry == 0 { g.start } else { g.parts[req.entry - 1] };
        let out = Interp::new(g, info, &toks, req.entry, &script).run(rule, req.entry != 0);
        let deleted = rep.log.iter().any(|e| matches!(e, Event::Deleted(..)));
        let verdict1 = self.reference(g, req, rep, out, deleted, &idx, &toks, ev);
        verdict1?;
        // (2) probes
        let compared = check_probes(rep)?;
        ev.label_n("probe_pairs_compared", compared as u64);
        Ok(())
    }
}

impl P08 {
    #[allow(clippy::too_many_arguments)]
    fn reference(&self, g: &Grammar, req: &Req, rep: &Reply, out: Outcome, deleted: bool, idx: &[usize], toks: &[usize], ev: &mut Evidence) -> Verdict {
        match out {
            Outcome::Accept { tree, actions, assert_diags, abandoned_with_nodes } => {
                if abandoned_with_nodes || deleted {
                    ev.nontrivial(&format!("{:?}{:?}", g, req));
                }
                ev.label("accepted_inputs");
                if rep.diags.len() != assert_diags {
                    return Err((
                        if rep.diags.len() > assert_diags { "spurious-diagnostic".into() } else { "missing-assert-diagnostic".into() },
                        format!("input [{}] is accepted by the prioritised reading with {assert_diags} scripted assertion diagnostics, parser reports {:?}", inputs::show(g, &toks), rep.diags),
                    ));
                }
                compare_accept(g, rep, &tree, &actions)
            }
            Outcome::Reject { pos } => {
                ev.label("rejected_inputs");
                if deleted {
                    ev.nontrivial(&format!("{:?}{:?}", g, req));
                }
                if rep.diags.is_empty() {
                    return Err(("silent-accept".into(), format!("input [{}] cannot be parsed (stuck at token {pos}) but no diagnostic is reported", inputs::show(g, &toks))));
                }
                if req.amode == 0 {
                    let spans = lab::spans(&req.tokens, req.enc);
                    let src_len = spans.last().map_or(0, |s| s.1);
                    let expected = if pos < toks.len() { spans[idx[pos]] } else { (src_len, src_len) };
                    let (s, e, m) = &rep.diags[0];
                    if (*s, *e) != expected {
                        return Err((
                            if (*s, *e) < expected { "first-diagnostic-early".into() } else { "first-diagnostic-late".into() },
                            format!("first diagnostic at {s}..{e} ({m}); the prioritised parse of [{}] cannot continue at token {pos} ({}..{})", inputs::show(g, &req.tokens), expected.0, expected.1),
                        ));
                    }
                }
                Ok(())
            }
            Outcome::Unknown(w) => {
                ev.exclude(&format!("interpreter: {w}"));
                Ok(())
            }
        }
    }
}

pub fn run08(ctx: &Ctx) -> i32 {
    labrun::main_lab(&P08, ctx)
}
