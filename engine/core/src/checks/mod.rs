//! One module per property.
use crate::ev::Tier;
use std::path::PathBuf;

pub mod c09;
pub mod c10;
pub mod c14;

#[derive(Clone, Debug)]
pub struct Ctx {
    pub tier: Tier,
    pub seed: u64,
    pub replay: Option<PathBuf>,
    pub threads: usize,
}

/// committed regression replays of a property
pub fn replay_files(id: &str) -> Vec<PathBuf> {
    let dir = crate::ev::root().join("replays").join(id);
    let mut v: Vec<PathBuf> = std::fs::read_dir(dir).map(|d| d.filter_map(|e| e.ok().map(|e| e.path())).filter(|p| p.extension().is_some_and(|x| x == "json")).collect()).unwrap_or_default();
    v.sort();
    v
}

pub fn run(id: &str, ctx: &Ctx) -> i32 {
    match id {
        "C09" => c09::run(ctx),
        "C10" => c10::run(ctx),
        "C14" => c14::run(ctx),
        _ => {
            eprintln!("unknown property {id}");
            2
        }
    }
}
