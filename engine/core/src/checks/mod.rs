//! One module per property.
use crate::ev::Tier;
use std::path::PathBuf;

pub mod c01;
pub mod c02b;
pub mod c04;
pub mod c05;
pub mod c07;
pub mod c08;
pub mod c09;
pub mod c10;
pub mod c11;
pub mod c12;
pub mod c13;
pub mod c14;
pub mod c15;
pub mod c16;
pub mod c17;
pub mod c19;
pub mod c20;

#[derive(Clone, Debug)]
pub struct Ctx {
    pub tier: Tier,
    pub seed: u64,
    pub replay: Option<PathBuf>,
    pub threads: usize,
}

/// committed regression replays of a property
pub fn replay_files(id: &str) -> Vec<PathBuf> {
    let dir = crate::ev::root().join("replays").join(id);
    let mut v: Vec<PathBuf> = std::fs::read_dir(dir).map(|d| d.filter_map(|e| e.ok().map(|e| e.path())).filter(|p| p.extension().is_some_and(|x| x == "json")).collect()).unwrap_or_default();
    v.sort();
    v
}

pub fn run(id: &str, ctx: &Ctx) -> i32 {
    match id {
        "C01" => c01::run01(ctx),
        "C02" => c01::run02(ctx),
        "C03" => c01::run03(ctx),
        "C04" => c04::run04(ctx),
        "C05" => c05::run05(ctx),
        "C06" => c04::run06(ctx),
        "C07" => c07::run07(ctx),
        "C08" => c08::run08(ctx),
        "C09" => c09::run(ctx),
        "C10" => c10::run(ctx),
        "C11" => c11::run(ctx),
        "C12" => c12::run(ctx),
        "C13" => c13::run(ctx),
        "C14" => c14::run(ctx),
        "C15" => c15::run(ctx),
        "C16" => c16::run16(ctx),
        "C17" => c17::run17(ctx),
        "C18" => c17::run18(ctx),
        "C19" => c19::run(ctx),
        "C20" => c20::run(ctx),
        _ => {
            eprintln!("unknown property {id}");
            2
        }
    }
}

/// length (in u32s) of the choice streams a property's in-process stage draws
pub fn stream_len(id: &str) -> usize {
    match id {
        "C13" | "C20" => 700,
        "C17" | "C18" => 800,
        // C09 / C10 / C14: the many-rules profile needs long streams
        _ => 900,
    }
}

/// One case of an in-process property as a pure function of a choice stream: the first value
/// selects the generator profile, the rest is the stream the proptest stage would have drawn.
/// Used by the coverage-guided stage (`fuzzstage`), which lets libFuzzer mutate the stream.
pub fn stream_case(id: &str, stream: &[u32], ev: &mut crate::ev::Evidence) -> Result<(), crate::ev::Violation> {
    let sel = stream.first().copied().unwrap_or(0);
    let rest = if stream.is_empty() { stream } else { &stream[1..] };
    let pick = |n: usize| ((sel as u64 * n as u64) >> 32) as usize;
    ev.eval();
    match id {
        "C09" => {
            let ps = c09::profiles();
            let p = &ps[pick(ps.len())];
            c09::check_grammar(&crate::ggen::build(p, rest), ev, p.name).map(|_| ())
        }
        "C10" => {
            let ps = c10::profiles();
            let p = &ps[pick(ps.len())];
            c10::check_grammar(&crate::ggen::build(p, rest), ev, p.name).map(|_| ())
        }
        "C14" => {
            let ps = c14::profiles();
            let p = &ps[pick(ps.len())];
            c14::check_grammar(&crate::ggen::build(p, rest), ev, p.name).map(|_| ())
        }
        "C13" => {
            let ps = c13::profiles();
            c13::check_case(rest, &ps[pick(ps.len())], ev)
        }
        "C17" => {
            let ps = c17::profiles();
            let p = &ps[pick(ps.len())];
            c17::check_valid(&c17::valid_text(rest, p), ev, p.name).map(|_| ())
        }
        "C18" => {
            let ps = c17::profiles();
            let p = &ps[pick(ps.len())];
            c17::check_idem(&c17::valid_text(rest, p), ev, p.name)
        }
        "C20" => c20::run_inprocess(&c20::gen_history(rest)).map(|_| ()).map_err(|mut v| {
            v.replay["stream"] = serde_json::json!(rest);
            v
        }),
        _ => Ok(()),
    }
}

/// The repository's own accepted grammars, imported through the front end's typed view.
pub fn real_grammars() -> Vec<(crate::gm::Grammar, &'static str)> {
    let mut out = vec![];
    let mut paths: Vec<std::path::PathBuf> = vec![crate::ev::repo().join("src/frontend/lelwel.llw")];
    for dir in ["examples", "tests/frontend"] {
        let mut stack = vec![crate::ev::repo().join(dir)];
        while let Some(d) = stack.pop() {
            if let Ok(rd) = std::fs::read_dir(&d) {
                for e in rd.flatten() {
                    let p = e.path();
                    if p.is_dir() {
                        if p.file_name().is_some_and(|n| n != "target") {
                            stack.push(p);
                        }
                    } else if p.extension().is_some_and(|x| x == "llw") {
                        paths.push(p);
                    }
                }
            }
        }
    }
    paths.sort();
    for p in paths {
        let Ok(text) = std::fs::read_to_string(&p) else { continue };
        let t2 = text.clone();
        let ok = crate::lw::catch(move || crate::lw::accepted(&t2)).unwrap_or(false);
        if !ok {
            continue;
        }
        if let Some(g) = crate::lw::import(&text) {
            out.push((g, "real"));
        }
    }
    out
}
