//! C16 — skipped tokens are transparent to parsing (metamorphic).

use super::Ctx;
use super::c01::all_profiles;
use crate::dice::Dice;
use crate::ev::{Evidence, Tier};
use crate::ggen::Profile;
use crate::gm::*;
use crate::inputs::{self, Sampler};
use crate::interp;
use crate::lab::{self, Event, Reply, Req, Status};
use crate::labrun::{self, GInfo, LabProp, Verdict};

pub struct P16;

const RULE: &str = "accepted grammars with >= 1 skipped token (all profiles: EBNF, Pratt, node operators, ordered choice, predicates whose scripted outcome depends only on trivia-invariant observations, position-scripted assertions, parts; repository grammars with skip declarations) x base inputs without trivia (sentences, mutants, prefixes, random) x trivia variants (skipped tokens and lexer Error tokens inserted before the first token, after the last, in random gaps, in runs of up to 3). Oracle (metamorphic): tree of the variant with skipped leaves removed == tree of the base; diagnostics equal after mapping each span to the rank of the non-skipped token it lies on (or end of input); every token a predicate obtained from peek/peek_left is a non-skipped token and equals the k-th non-skipped token from the cursor. non-trivial = pair whose variant has trivia next to an empty node, an error node or a node inserted by a creation operator (approximated: the base reply has a diagnostic, an empty node or a creation); distinct = (grammar, base, variant)";

fn diag_ranks(g: &Grammar, req: &Req, rep: &Reply) -> Vec<(usize, String)> {
    let spans = lab::spans(&req.tokens, req.enc);
    let nt: Vec<usize> = (0..req.tokens.len()).filter(|i| req.tokens[*i] != lab::ERROR_KIND && !g.skip.contains(&req.tokens[*i])).collect();
    rep.diags
        .iter()
        .map(|(s, e, m)| {
            let rank = nt.iter().position(|i| spans[*i] == (*s, *e)).unwrap_or(usize::MAX - if s == e { 0 } else { 1 });
            (rank, m.clone())
        })
        .collect()
}

fn token_name_at(g: &Grammar, req: &Req, t: Option<usize>) -> String {
    match t {
        Some(k) => g.tokens[k].name.clone(),
        None => {
            if req.entry == 0 {
                "EOF".into()
            } else {
                format!("EOF{}", crate::refan::snake_to_pascal(&g.rules[g.parts[req.entry - 1]].name))
            }
        }
    }
}

fn check_peeks(g: &Grammar, req: &Req, rep: &Reply) -> Result<usize, (String, String)> {
    let is_triv = |t: usize| t == lab::ERROR_KIND || g.skip.contains(&t);
    let mut n = 0;
    for e in &rep.log {
        let Event::Pred(rule, num, _, peeks, lefts, pos, _) = e else { continue };
        n += 1;
        let ahead: Vec<usize> = req.tokens.iter().skip(*pos).copied().filter(|t| !is_triv(*t)).collect();
        for (k, got) in peeks.iter().enumerate() {
            let want = token_name_at(g, req, ahead.get(k).copied());
            if *got != want {
                return Err(("peek".into(), format!("predicate ?{num} of rule {rule} at token {pos}: peek({k}) returned {got}, the {k}-th non-skipped token from the cursor is {want}")));
            }
        }
        let behind: Vec<usize> = req.tokens.iter().take(pos + 1).rev().copied().filter(|t| !is_triv(*t)).collect();
        for (k, got) in lefts.iter().enumerate() {
            let want = token_name_at(g, req, behind.get(k).copied());
            if *got != want {
                return Err(("peek-left".into(), format!("predicate ?{num} of rule {rule} at token {pos}: peek_left({k}) returned {got}, expected {want}")));
            }
        }
    }
    Ok(n)
}

impl LabProp for P16 {
    fn id(&self) -> &'static str {
        "C16"
    }
    fn rule(&self) -> &'static str {
        RULE
    }
    fn profiles(&self, _t: Tier) -> Vec<Profile> {
        all_profiles()
    }
    fn n_grammars(&self, t: Tier) -> usize {
        t.pick(110, 1300)
    }
    fn extra_grammars(&self, _t: Tier) -> Vec<(Grammar, &'static str)> {
        super::real_grammars()
    }
    fn domain(&self, g: &Grammar, _i: &GInfo) -> Result<(), &'static str> {
        if !crossing_shapes(g).is_empty() {
            return Err("node creation crossing a marker or an undoable attempt");
        }
        if g.skip.is_empty() { Err("no skipped token") } else { Ok(()) }
    }
    fn requests(&self, g: &Grammar, _i: &GInfo, gi: usize, d: &mut Dice<'_>, t: Tier) -> Vec<Req> {
        let s = Sampler::new(g);
        let mut out = vec![];
        let has_assert = g.any_regex(&|r| matches!(r, Regex::Assert(_)));
        let has_pred = g.any_regex(&|r| matches!(r, Regex::Pred(Some(_))));
        for entry in 0..=g.parts.len() {
            let rule = if entry == 0 { g.start } else { g.parts[entry - 1] };
            let n = t.pick(26, 60) / (1 + entry.min(1));
            for (i, base) in inputs::standard_inputs(g, &s, rule, d, n, t.pick(16, 40)).into_iter().enumerate() {
                let base = inputs::strip_trivia(&base, g);
                let seed = 1 + d.below(1000) as u64;
                for v in 0..5 {
                    let toks = match v {
                        0 => {
                            // trivia everywhere
                            let mut x = vec![g.skip[0]];
                            for t in &base {
                                x.push(*t);
                                x.push(g.skip[d.below(g.skip.len())]);
                            }
                            x
                        }
                        1 => inputs::sprinkle(&base, g, d, 1, false),
                        2 => inputs::sprinkle(&base, g, d, 2, true),
                        3 => inputs::sprinkle(&base, g, d, 3, true),
                        _ => {
                            let mut x = vec![lab::ERROR_KIND; 1 + d.below(2)];
                            x.extend(base.iter().copied());
                            x.extend(vec![g.skip[0]; 1 + d.below(3)]);
                            x
                        }
                    };
                    let mut r = Req::new(gi, toks);
                    r.entry = entry;
                    r.seed = seed;
                    r.enc = (i % 2) as u8;
                    r.pmode = 0;
                    r.amode = if has_assert { (i % 2) as u8 } else { 0 };
                    r.base = Some(base.clone());
                    out.push(r);
                }
                // tokens skipped through the predicate_skip hook (the harness skips the first declared
                // token when smode = 1) are skipped tokens too: in front of the first token, in any
                // gap, behind the last one
                if i % 3 == 0 && !g.skip.contains(&0) && !has_pred {
                    let base0: Vec<usize> = base.iter().copied().filter(|t| *t != 0).collect();
                    let mut toks = vec![];
                    for k in 0..=base0.len() {
                        if d.chance(if k == 0 { 3 } else { 1 }, 4) {
                            for _ in 0..1 + d.below(2) {
                                toks.push(0);
                            }
                        }
                        if k < base0.len() {
                            toks.push(base0[k]);
                        }
                    }
                    let mut r = Req::new(gi, toks);
                    r.entry = entry;
                    r.seed = seed;
                    r.enc = (i % 2) as u8;
                    r.smode = 1;
                    r.base = Some(base0);
                    out.push(r);
                }
            }
        }
        out
    }
    fn judge(&self, g: &Grammar, _info: &GInfo, req: &Req, rep: &Reply, more: &mut dyn FnMut(&Req) -> Reply, ev: &mut Evidence) -> Verdict {
        let Some(base) = &req.base else { return Ok(()) };
        let mut breq = req.clone();
        breq.tokens = base.clone();
        breq.base = None;
        let brep = more(&breq);
        if rep.status != Status::Ok || brep.status != Status::Ok {
            ev.exclude("parse did not return (C03 matter)");
            return Ok(());
        }
        // dynamically skipped tokens: judge with the first token counted among the skipped ones
        let g_dyn;
        let g = if req.smode == 1 {
            let mut x = g.clone();
            x.skip.push(0);
            g_dyn = x;
            ev.label("predicate_skip_variants");
            &g_dyn
        } else {
            g
        };
        if req.smode == 0 {
            let n = check_peeks(g, req, rep)?;
            ev.label_n("predicate_calls_checked", n as u64);
        }
        let (Some(t1), Some(t0)) = (&rep.tree, &brep.tree) else { return Ok(()) };
        let s1 = interp::strip_reply_tree(g, t1);
        let s0 = interp::strip_reply_tree(g, t0);
        let mut interesting = !brep.diags.is_empty();
        t0.walk(&mut |n| {
            if let lab::TNode::Rule { ch, .. } = n {
                if ch.is_empty() {
                    interesting = true;
                }
            }
        });
        if interesting || g.any_regex(&|r| matches!(r, Regex::Create(..))) {
            ev.nontrivial(&format!("{:?}{:?}", g, req));
        }
        if s1 != s0 {
            return Err(("tree-changed".into(), format!("inserting skipped tokens changes the tree: base [{}] gives {}, variant [{}] gives {}", inputs::show(g, base), s0.dump(g), inputs::show(g, &req.tokens), s1.dump(g))));
        }
        let d1 = diag_ranks(g, req, rep);
        let d0 = diag_ranks(g, &breq, &brep);
        if d1 != d0 {
            return Err(("diagnostics-changed".into(), format!("inserting skipped tokens changes the diagnostics: base [{}] gives {:?}, variant [{}] gives {:?} (token rank, message)", inputs::show(g, base), d0, inputs::show(g, &req.tokens), d1)));
        }
        Ok(())
    }
}

pub fn run16(ctx: &Ctx) -> i32 {
    labrun::main_lab(&P16, ctx)
}
