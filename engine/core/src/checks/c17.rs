//! C17 (formatting preserves content) and C18 (idempotence, check mode).

use super::Ctx;
use crate::dice::Dice;
use crate::ev::{self, Evidence, Report, Violation};
use crate::ggen::{self, Profile};
use crate::gm::{Grammar, Regex};
use crate::lw;
use crate::prop;
use crate::textgen::{self, LexKind};
use serde_json::json;
use std::process::Command;

const RULE17: &str = "(i) any text: token-level mutants of every repository grammar and of generated grammars in random layouts, truncations at every token of repository files, soup of grammar fragments / ASCII / multi-byte characters, all item sequences up to length 2-3: format() returns (no panic, debug assertions on) and output and input have the same non-whitespace characters in the same order; (ii) syntactically valid grammar files = generated grammars (all profiles) in random layouts with line/doc/block comments in every kind of gap + repository files: additionally the sequence of (lexeme kind, text) incl. comments is unchanged (own splitter), the output has no syntax error, semantic diagnostics are the same multiset of (code, message, lexeme-index span); llw -f on a temporary copy leaves exactly format(x) in the file. non-trivial (i) = text with an error node of >= 2 tokens (approximated: >= 1 syntax diagnostic and >= 3 lexemes); (ii) >= 2 comments, one inside brackets or directly after `:`, `|` or a token on the same line (approximated: >= 2 comments); distinct = the text";

fn lex_index_spans(text: &str, d: &lw::LwDiag) -> Vec<(usize, usize)> {
    let lex: Vec<_> = textgen::split(text).into_iter().filter(|l| l.kind != LexKind::Ws).collect();
    d.labels
        .iter()
        .map(|l| {
            let a = lex.iter().position(|x| x.start >= l.start).unwrap_or(lex.len());
            let b = lex.iter().rposition(|x| x.end <= l.end).map(|i| i + 1).unwrap_or(0);
            (a, b)
        })
        .collect()
}

fn sema_sig(text: &str) -> Vec<(Option<String>, String, Vec<(usize, usize)>)> {
    let (d, n) = lw::diagnostics(text);
    let mut v: Vec<_> = d.iter().skip(n).map(|x| (x.code.clone(), x.message.clone(), lex_index_spans(text, x))).collect();
    v.sort();
    v
}

/// returns Ok(Some(formatted)) when checked
pub fn check_any(text: &str, ev: &mut Evidence, origin: &str) -> Result<Option<String>, Violation> {
    if textgen::max_nesting(text) > super::c12::DEEP {
        ev.exclude("deeply nested text (C12 evaluates those in a child process)");
        return Ok(None);
    }
    let _case = crate::prop::case_guard("C17", origin, text);
    ev.eval();
    if ev.samples.len() < 3 && ev.evaluations % 503 == 1 {
        ev.sample(json!({"text": text, "origin": origin}));
    }
    let t2 = text.to_string();
    let out = match lw::catch(move || lw::format_text(&t2)) {
        Ok(o) => o,
        Err(p) => {
            let loc = p.split(" at ").last().unwrap_or("").to_string();
            let loc = loc.split("/").last().unwrap_or("").to_string();
            return Err(Violation { sig: format!("panic:{loc}"), what: format!("formatter panicked on {:?}: {p}", text.chars().take(100).collect::<String>()), replay: json!({"text": text, "origin": origin}) });
        }
    };
    if textgen::strip_ws(&out) != textgen::strip_ws(text) {
        let (a, b) = (textgen::strip_ws(text), textgen::strip_ws(&out));
        let i = a.chars().zip(b.chars()).position(|(x, y)| x != y).unwrap_or(a.chars().count().min(b.chars().count()));
        return Err(Violation {
            sig: "content-changed".into(),
            what: format!("formatting changes the non-whitespace content at character {i}: input has {:?}, output has {:?}", a.chars().skip(i.saturating_sub(10)).take(30).collect::<String>(), b.chars().skip(i.saturating_sub(10)).take(30).collect::<String>()),
            replay: json!({"text": text, "origin": origin}),
        });
    }
    Ok(Some(out))
}

pub fn check_valid(text: &str, ev: &mut Evidence, origin: &str) -> Result<Option<String>, Violation> {
    if textgen::max_nesting(text) > super::c12::DEEP {
        ev.exclude("deeply nested text (C12 evaluates those in a child process)");
        return Ok(None);
    }
    let _case = crate::prop::case_guard("C17", origin, text);
    let Some(out) = check_any(text, ev, origin)? else { return Ok(None) };
    if lw::syntax_diag_count(text) > 0 {
        ev.exclude("text has syntax errors (character-level claim only)");
        return Ok(Some(out));
    }
    let n_comments = textgen::split(text).iter().filter(|l| matches!(l.kind, LexKind::LineComment | LexKind::DocComment | LexKind::BlockComment)).count();
    if n_comments >= 2 {
        ev.nontrivial(text);
    }
    ev.label("valid_grammars");
    let replay = json!({"text": text, "origin": origin});
    if textgen::content(text) != textgen::content(&out) {
        let (a, b) = (textgen::content(text), textgen::content(&out));
        let i = a.iter().zip(b.iter()).position(|(x, y)| x != y).unwrap_or(a.len().min(b.len()));
        return Err(Violation { sig: "lexemes-changed".into(), what: format!("formatting changes the token/comment sequence at lexeme {i}: {:?} becomes {:?}", a.get(i), b.get(i)), replay });
    }
    if lw::syntax_diag_count(&out) > 0 {
        return Err(Violation { sig: "output-has-syntax-error".into(), what: format!("formatted text of a valid grammar has syntax errors:\n{out}"), replay });
    }
    let (s1, s2) = (sema_sig(text), sema_sig(&out));
    if s1 != s2 {
        return Err(Violation { sig: "semantic-diagnostics-changed".into(), what: format!("semantic diagnostics differ after formatting: {:?} vs {:?}", s1, s2), replay });
    }
    Ok(Some(out))
}

const RULE18: &str = "syntactically valid grammar files: generated grammars (all profiles) in random layouts (arbitrary line breaks and indentation; line, doc and block comments between declarations, after any token on the same line, on own lines inside rule bodies, inside brackets) and the repository files. Oracle: f = format(x): format(f) == f; sampled through the real binary: `llw -f file` then `llw -f -c file` exits 0, and on the original `llw -f -c` exits 0 exactly when format(x) == x. half of the layouts (called plain) place at most one comment per gap and none at the start of the text or directly after `:` `(` `[` (the placements of known finding K9), and any non-idempotence on such a text is reported under its own signature. non-trivial = text with >= 1 comment and >= 1 line break inside a rule body; distinct = the text";

pub fn check_idem(text: &str, ev: &mut Evidence, origin: &str) -> Result<(), Violation> {
    if textgen::max_nesting(text) > super::c12::DEEP {
        ev.exclude("deeply nested text (C12 evaluates those in a child process)");
        return Ok(());
    }
    let _case = crate::prop::case_guard("C18", origin, text);
    ev.eval();
    if ev.samples.len() < 3 && ev.evaluations % 503 == 1 {
        ev.sample(json!({"text": text, "origin": origin}));
    }
    if lw::syntax_diag_count(text) > 0 {
        ev.exclude("text has syntax errors");
        return Ok(());
    }
    let t2 = text.to_string();
    let Ok(f) = lw::catch(move || lw::format_text(&t2)) else {
        ev.exclude("formatter panics (C17 matter)");
        return Ok(());
    };
    let f2 = f.clone();
    let Ok(ff) = lw::catch(move || lw::format_text(&f2)) else {
        return Err(Violation { sig: "panic-on-own-output".into(), what: "formatter panics on its own output".into(), replay: json!({"text": text, "origin": origin}) });
    };
    let lex = textgen::split(text);
    let has_comment = lex.iter().any(|l| matches!(l.kind, LexKind::LineComment | LexKind::DocComment | LexKind::BlockComment));
    if has_comment && text.contains('\n') {
        ev.nontrivial(text);
    }
    if ff != f {
        // classify by the lexemes around the first difference
        let i = f.chars().zip(ff.chars()).position(|(a, b)| a != b).unwrap_or(f.len().min(ff.len()));
        let before: String = f.chars().take(i).collect();
        let last_tok = textgen::split(&before).into_iter().rev().find(|l| l.kind != LexKind::Ws).map(|l| {
            let t = &before[l.start..l.end];
            match l.kind {
                LexKind::LineComment | LexKind::DocComment => "line-comment".to_string(),
                LexKind::BlockComment => "block-comment".to_string(),
                LexKind::Punct => t.to_string(),
                k => format!("{k:?}"),
            }
        });
        let ctx: String = f.chars().skip(i.saturating_sub(40)).take(80).collect();
        let ctx2: String = ff.chars().skip(i.saturating_sub(40)).take(80).collect();
        let after: String = f.chars().skip(i).collect::<String>();
        let after2: String = ff.chars().skip(i).collect::<String>();
        let next_tok = |s: &str| textgen::split(s).into_iter().find(|l| l.kind != LexKind::Ws).map(|l| match l.kind {
            LexKind::LineComment | LexKind::DocComment => "line-comment".to_string(),
            LexKind::BlockComment => "block-comment".to_string(),
            LexKind::Punct => s[l.start..l.end].to_string(),
            k => format!("{k:?}"),
        }).unwrap_or_else(|| "end".into());
        let _ = after2;
        // texts without a comment in one of the K9 placements get their own signature space:
        // none of the listed findings applies to them
        let space = if textgen::k9_shape(text) { "not-idempotent" } else { "not-idempotent-plain" };
        let mut sig = format!("{space}:{}>{}", last_tok.clone().unwrap_or_else(|| "start".into()), next_tok(&after));
        // a bracket group that the first pass broke over several lines and the second pass joins
        // (or the reverse): the difference starts with a line break directly behind `(` / `[`
        let (c1, c2) = (f.chars().nth(i), ff.chars().nth(i));
        if matches!(last_tok.as_deref(), Some("(") | Some("[")) && before.ends_with(['(', '[']) {
            if c1 == Some('\n') && c2 != Some('\n') {
                sig = "not-idempotent:bracket-group-joined".into();
            } else if c2 == Some('\n') && c1 != Some('\n') {
                sig = "not-idempotent:bracket-group-split".into();
            }
        }
        ev.label(&format!("sig:{sig}"));
        if let Ok(want) = std::env::var("VERIF_C18_COLLECT") {
            if want == sig && ev.samples.len() < 6 {
                ev.sample(json!({"text": text, "once": f, "twice": ff}));
            }
            return Ok(());
        }
        return Err(Violation {
            sig,
            what: format!("format(format(x)) != format(x); first pass gives ...{ctx:?}..., second pass gives ...{ctx2:?}..."),
            replay: json!({"text": text, "origin": origin, "formatted_once": f}),
        });
    }
    Ok(())
}

pub fn profiles() -> Vec<Profile> {
    vec![
        Profile::text(),
        Profile { depth: 4, max_rules: 8, c11_shapes: true, repair: false, ..Profile::full() },
        Profile { pratt: true, nodeops: true, parts: true, skips: true, max_rules: 4, ..Profile::base("pratt") },
    ]
}

/// long identifiers: lines reach the formatter's width limit (100 columns) without any line
/// break in the source, so that the printer itself has to decide where to break
fn lengthen(g: &mut Grammar, d: &mut Dice<'_>) {
    const RULE_PAD: &[&str] = &["_statement_list", "_expression_with_a_long_name", "_declaration", "_x"];
    const TOK_PAD: &[&str] = &["KeywordWithLongName", "Identifier", "PunctuationMark", "X"];
    let old: Vec<String> = g.rules.iter().map(|r| r.name.clone()).collect();
    for (i, r) in g.rules.iter_mut().enumerate() {
        r.name = format!("{}{}", r.name, RULE_PAD[d.below(RULE_PAD.len())]);
        let _ = i;
    }
    // node names that reuse a rule name follow the rule
    fn fix(r: &mut Regex, old: &[String], new: &[String]) {
        match r {
            Regex::Rename(n) | Regex::Create(_, Some(n)) => {
                if let Some(k) = old.iter().position(|o| o == n) {
                    *n = new[k].clone();
                }
            }
            _ => {}
        }
        for c in r.children_mut() {
            fix(c, old, new);
        }
    }
    let new: Vec<String> = g.rules.iter().map(|r| r.name.clone()).collect();
    for r in g.rules.iter_mut() {
        if let Some(b) = r.body.as_mut() {
            fix(b, &old, &new);
        }
    }
    for t in g.tokens.iter_mut() {
        let pad = TOK_PAD[d.below(TOK_PAD.len())];
        t.name = format!("{}{}", t.name, pad);
        if let Some(s) = t.symbol.as_mut() {
            *s = format!("{s}_{}", pad.to_lowercase());
        }
    }
}

pub fn valid_text(stream: &[u32], prof: &Profile) -> String {
    let mut g = ggen::build(prof, stream);
    let tail: Vec<u32> = stream.iter().rev().take(300).copied().collect();
    let mut d = Dice::new(&tail);
    if d.chance(1, 4) {
        lengthen(&mut g, &mut d);
    }
    // half of the layouts keep comments out of the placements of known finding K9
    let plain = d.chance(1, 2);
    textgen::layout_with(&g, &mut d, true, plain).text
}

pub fn llw() -> std::path::PathBuf {
    ev::root().join("engine/target/repo-bins/debug/llw")
}

fn tmp_dir(tag: &str) -> std::path::PathBuf {
    let d = crate::lab::scratch_root().join(format!("{tag}-{:?}", std::thread::current().id()).replace(['(', ')'], ""));
    let _ = std::fs::create_dir_all(&d);
    d
}

pub fn run17(ctx: &Ctx) -> i32 {
    let mut ev = Evidence::new("C17", ctx.tier, ctx.seed, RULE17);
    let mut rep = Report::new("C17");
    let files = match &ctx.replay {
        Some(p) => vec![p.clone()],
        None => super::replay_files("C17"),
    };
    for f in files {
        let v: serde_json::Value = serde_json::from_str(&std::fs::read_to_string(&f).unwrap()).unwrap();
        if let Some(t) = v["replay"]["text"].as_str() {
            let t2 = t.to_string();
            let limit = crate::prop::hang_limit();
            match crate::prop::with_deadline(limit, move || {
                let mut e2 = Evidence::new("C17", crate::ev::Tier::Quick, 0, "");
                // any text: the formatter returns and keeps the non-whitespace characters; valid text: the full oracle
                check_any(&t2, &mut e2, "replay").and_then(|_| check_valid(&t2, &mut e2, "replay"))
            }) {
                Some(Err(v)) => rep.violation(v),
                Some(Ok(_)) => {}
                None => rep.violation(Violation { sig: "no-return".into(), what: format!("the formatter does not return within {limit} s on {:?}; confirmed in a fresh process", t.chars().take(80).collect::<String>()), replay: json!({"text": t, "origin": "replay"}) }),
            }
            ev.eval();
            ev.label("replayed");
        }
    }
    if ctx.replay.is_some() {
        let code = rep.finish(&mut ev);
        ev.write();
        return code;
    }
    let corpus = textgen::repo_texts();
    // (ii) valid grammars
    let n = ctx.tier.pick(300_000u32, 2_000_000u32);
    for p in profiles() {
        let out = prop::run_prop("C17", ctx.tier, ctx.seed, p.name, n / 3, ctx.threads, 800, |stream, ev| {
            let text = valid_text(stream, &p);
            check_valid(&text, ev, p.name).map(|_| ())
        });
        ev.merge(out.ev);
        for v in out.violations.into_iter().chain(out.known_hits) {
            rep.violation(v);
        }
    }
    for (name, text) in &corpus {
        if let Err(v) = check_valid(text, &mut ev, name) {
            rep.violation(v);
        }
    }
    // (i) any text
    let n = ctx.tier.pick(500_000u32, 4_000_000u32);
    let out = prop::run_prop("C17", ctx.tier, ctx.seed, "mutants", n, ctx.threads, 400, |stream, ev| {
        let mut d = Dice::new(stream);
        let base = if d.chance(2, 3) && !corpus.is_empty() { corpus[d.below(corpus.len())].1.clone() } else { valid_text(stream, &Profile::full()) };
        let text = if d.chance(1, 4) { textgen::soup(&mut d, 20) } else { textgen::mutate_text(&base, &mut d) };
        if lw::syntax_diag_count(&text) > 0 && textgen::split(&text).len() >= 3 {
            ev.nontrivial(&text);
        }
        check_any(&text, ev, "mutant").map(|_| ())
    });
    ev.merge(out.ev);
    for v in out.violations.into_iter().chain(out.known_hits) {
        rep.violation(v);
    }
    for (name, text) in &corpus {
        let lex = textgen::split(text);
        for l in lex.iter().step_by(ctx.tier.pick(5, 1)) {
            if let Err(v) = check_any(&text[..l.start], &mut ev, &format!("truncated {name}")) {
                rep.violation(v);
            }
            ev.label("truncations");
        }
    }
    // in-place path through the real binary
    let dir = tmp_dir("c17");
    let mut runner = crate::dice::runner(crate::dice::mix(ctx.seed, &[17]), 1);
    use proptest::strategy::ValueTree;
    for (i, t) in crate::dice::draw_trees(&mut runner, 800, ctx.tier.pick(40, 400)).into_iter().enumerate() {
        let text = valid_text(&t.current(), &profiles()[i % 3]);
        let t2 = text.clone();
        let Ok(expected) = lw::catch(move || lw::format_text(&t2)) else { continue };
        let file = dir.join("inplace.llw");
        std::fs::write(&file, &text).unwrap();
        let st = Command::new(llw()).args(["-f", file.to_str().unwrap()]).output().expect("llw");
        ev.eval();
        ev.label("llw_f_runs");
        let got = std::fs::read_to_string(&file).unwrap_or_default();
        if st.status.code() != Some(0) || got != expected {
            rep.violation(Violation { sig: "inplace-differs".into(), what: format!("`llw -f` (exit {:?}) left a file that differs from format(x)", st.status.code()), replay: json!({"text": text}) });
        }
    }
    let _ = std::fs::remove_dir_all(&dir);
    crate::lab::cleanup_scratch();
    crate::fuzzstage::maybe(ctx, "C17", &mut ev, &mut rep);
    let code = rep.finish(&mut ev);
    ev.write();
    code
}

pub fn run18(ctx: &Ctx) -> i32 {
    let mut ev = Evidence::new("C18", ctx.tier, ctx.seed, RULE18);
    let mut rep = Report::new("C18");
    let files = match &ctx.replay {
        Some(p) => vec![p.clone()],
        None => super::replay_files("C18"),
    };
    for f in files {
        let v: serde_json::Value = serde_json::from_str(&std::fs::read_to_string(&f).unwrap()).unwrap();
        if let Some(t) = v["replay"]["text"].as_str() {
            let t2 = t.to_string();
            let limit = crate::prop::hang_limit();
            match crate::prop::with_deadline(limit, move || {
                let mut e2 = Evidence::new("C18", crate::ev::Tier::Quick, 0, "");
                check_idem(&t2, &mut e2, "replay")
            }) {
                Some(Err(v)) => rep.violation(v),
                Some(Ok(())) => {}
                None => rep.violation(Violation { sig: "no-return".into(), what: format!("formatting does not return within {limit} s on {:?}; confirmed in a fresh process", t.chars().take(80).collect::<String>()), replay: json!({"text": t, "origin": "replay"}) }),
            }
            ev.eval();
            ev.label("replayed");
        }
    }
    if ctx.replay.is_some() {
        let code = rep.finish(&mut ev);
        ev.write();
        return code;
    }
    let n = ctx.tier.pick(600_000u32, 4_000_000u32);
    for p in profiles() {
        let out = prop::run_prop("C18", ctx.tier, ctx.seed, p.name, n / 3, ctx.threads, 800, |stream, ev| {
            let text = valid_text(stream, &p);
            check_idem(&text, ev, p.name)
        });
        ev.merge(out.ev);
        for v in out.violations.into_iter().chain(out.known_hits) {
            rep.violation(v);
        }
    }
    for (name, text) in textgen::repo_texts() {
        if let Err(v) = check_idem(&text, &mut ev, &name) {
            rep.violation(v);
        }
    }
    // check mode through the real binary
    let dir = tmp_dir("c18");
    let mut runner = crate::dice::runner(crate::dice::mix(ctx.seed, &[18]), 1);
    use proptest::strategy::ValueTree;
    for (i, t) in crate::dice::draw_trees(&mut runner, 800, ctx.tier.pick(40, 400)).into_iter().enumerate() {
        let text = valid_text(&t.current(), &profiles()[i % 3]);
        let t2 = text.clone();
        let Ok(f) = lw::catch(move || lw::format_text(&t2)) else { continue };
        let file = dir.join("check.llw");
        std::fs::write(&file, &text).unwrap();
        let c0 = Command::new(llw()).args(["-f", "-c", file.to_str().unwrap()]).output().expect("llw");
        ev.eval();
        ev.label("llw_fc_runs");
        let unchanged = std::fs::read_to_string(&file).unwrap_or_default() == text;
        let want = if f == text { 0 } else { 1 };
        if c0.status.code() != Some(want) || !unchanged {
            rep.violation(Violation { sig: "check-mode-verdict".into(), what: format!("`llw -f -c` exits {:?} (file modified: {}), format(x)==x is {}", c0.status.code(), !unchanged, f == text), replay: json!({"text": text}) });
        }
        let _ = Command::new(llw()).args(["-f", file.to_str().unwrap()]).output();
        let c1 = Command::new(llw()).args(["-f", "-c", file.to_str().unwrap()]).output().expect("llw");
        if c1.status.code() != Some(0) {
            let once = std::fs::read_to_string(&file).unwrap_or_default();
            let mut ev2 = Evidence::new("C18", ctx.tier, ctx.seed, "");
            // classify through the in-process check so that known idempotence findings match
            match check_idem(&text, &mut ev2, "llw -f then llw -f -c") {
                Err(v) => rep.violation(v),
                Ok(()) => rep.violation(Violation { sig: "check-after-format-fails".into(), what: format!("after `llw -f`, `llw -f -c` exits {:?}", c1.status.code()), replay: json!({"text": text, "formatted_once": once}) }),
            }
        }
    }
    let _ = std::fs::remove_dir_all(&dir);
    crate::lab::cleanup_scratch();
    crate::fuzzstage::maybe(ctx, "C18", &mut ev, &mut rep);
    let code = rep.finish(&mut ev);
    ev.write();
    code
}
