//! C04 (no diagnostic <=> sentence) and C06 (earliest error, no cascades): Earley oracles.

use super::Ctx;
use super::c01::{sig_of, standard_requests};
use crate::dice::Dice;
use crate::ev::{Evidence, Tier};
use crate::ggen::Profile;
use crate::gm::*;
use crate::inputs;
use crate::lab::{self, Reply, Req, Status};
use crate::labrun::{self, GInfo, LabProp, Verdict};

pub fn no_user_semantics(g: &Grammar) -> bool {
    !g.any_regex(&|r| matches!(r, Regex::Pred(Some(_)) | Regex::Assert(_)))
}
pub fn plain_cfg(g: &Grammar) -> bool {
    !g.any_regex(&|r| matches!(r, Regex::Choice(_) | Regex::Pred(None)))
}

pub fn profiles04() -> Vec<Profile> {
    vec![
        Profile::ebnf(),
        Profile { pratt: true, nodeops: true, parts: true, skips: true, returns: true, ..Profile::base("pratt-nodeops") },
        Profile { nodeops: true, actions: true, parts: true, skips: true, empty_rules: true, shuffle_decls: true, max_rules: 7, ..Profile::base("nodeops-actions") },
        Profile { pratt: true, max_rules: 3, depth: 2, ..Profile::base("pratt-small") },
        Profile { pratt: true, pratt_shared_ops: true, max_rules: 3, max_tokens: 4, depth: 2, ..Profile::base("pratt-shared-ops") },
        // many rules in shuffled declaration order (analysis fixpoints need several rounds)
        Profile { max_rules: 12, max_tokens: 8, depth: 2, pratt: true, parts: true, skips: true, shuffle_decls: true, ..Profile::base("big-shuffled") },
    ]
}

pub fn profiles04_prio() -> Vec<Profile> {
    vec![
        Profile { choice: true, choice_weight: 6, pred_t: true, nodeops: true, skips: true, parts: true, ..Profile::base("choice-predt") },
        Profile { choice: true, choice_weight: 8, pratt: true, max_rules: 4, shuffle_decls: true, ..Profile::base("choice-pratt") },
    ]
}

pub struct P04;
pub struct P06;

const RULE04: &str = "accepted grammars without ?n / !n (profiles ebnf, pratt+nodeops+return, nodeops+actions+empty rules, small pratt; repository grammars without predicates) x per entry point: sentences sampled from the grammar model, every kind of single/double edit mutant, prefixes, random strings, trivia sprinkled in (removed before asking the oracle). Oracle: Earley recogniser on an independently built BNF (no first/follow sets): diagnostics empty <=> trivia-free token string is in L(entry rule); both directions counted; grammars with ordered choice or ?t are judged by the value-semantics interpreter (prioritised reading). non-trivial = sentence of length >= 3 on a grammar with a loop or recursion, or a non-sentence that is a single edit away from a sampled sentence (counted: non-sentences produced by the mutation generators); distinct = (grammar, input)";

impl LabProp for P04 {
    fn id(&self) -> &'static str {
        "C04"
    }
    fn rule(&self) -> &'static str {
        RULE04
    }
    fn profiles(&self, _t: Tier) -> Vec<Profile> {
        let mut v = profiles04();
        v.extend(profiles04_prio());
        v
    }
    fn n_grammars(&self, t: Tier) -> usize {
        t.pick(80, 1100)
    }
    fn extra_grammars(&self, _t: Tier) -> Vec<(Grammar, &'static str)> {
        super::real_grammars().into_iter().filter(|(g, _)| no_user_semantics(g)).collect()
    }
    fn domain(&self, g: &Grammar, _i: &GInfo) -> Result<(), &'static str> {
        if !no_user_semantics(g) {
            return Err("has ?n or !n");
        }
        if !crossing_shapes(g).is_empty() {
            return Err("node creation crossing a marker or an undoable attempt");
        }
        if !plain_cfg(g) && (g.rules.iter().any(|r| r.body.is_none()) || g.any_regex(&|r| matches!(r, Regex::Return))) {
            return Err("prioritised grammar with empty rule or & (not modelled by the interpreter)");
        }
        Ok(())
    }
    fn requests(&self, g: &Grammar, _i: &GInfo, gi: usize, d: &mut Dice<'_>, t: Tier) -> Vec<Req> {
        standard_requests(g, gi, d, t.pick(130, 320), t.pick(12, 20))
    }
    fn judge(&self, g: &Grammar, info: &GInfo, req: &Req, rep: &Reply, _m: &mut dyn FnMut(&Req) -> Reply, ev: &mut Evidence) -> Verdict {
        if req.smode != 0 {
            // dynamic skipping changes the language; not part of this property
            return Ok(());
        }
        if rep.status != Status::Ok {
            ev.exclude("parse did not return (C03 matter)");
            return Ok(());
        }
        let toks = inputs::strip_trivia(&req.tokens, g);
        let member = if plain_cfg(g) {
            info.earley[req.entry].recognize(&toks).0
        } else {
            // prioritised reading (ordered choice, ?t): value-semantics interpreter
            let never = |_: &str, _: u32, _: usize| false;
            let rule = if req.entry == 0 { g.start } else { g.parts[req.entry - 1] };
            match crate::interp::Interp::new(g, info, &toks, req.entry, &never).run(rule, req.entry != 0) {
                crate::interp::Outcome::Accept { .. } => true,
                crate::interp::Outcome::Reject { .. } => false,
                crate::interp::Outcome::Unknown(w) => {
                    ev.exclude(&format!("interpreter: {w}"));
                    return Ok(());
                }
            }
        };
        ev.label(if plain_cfg(g) { "judged_by_earley" } else { "judged_by_interpreter" });
        let has_loop = g.any_regex(&|r| matches!(r, Regex::Star(_) | Regex::Plus(_))) || g.is_pratt_any();
        if member {
            ev.label("sentences");
            if toks.len() >= 3 && has_loop {
                ev.nontrivial(&format!("{:?}{:?}{}", g, toks, req.entry));
            }
        } else {
            ev.label("non_sentences");
            ev.nontrivial(&format!("{:?}{:?}{}", g, toks, req.entry));
        }
        match (member, rep.diags.is_empty()) {
            (true, true) | (false, false) => Ok(()),
            (true, false) => {
                let m = format!("valid input draws a diagnostic: {:?} on sentence [{}]", rep.diags[0], inputs::show(g, &toks));
                Err((sig_of("spurious", &rep.diags[0].2), m))
            }
            (false, true) => Err(("silent-accept".into(), format!("invalid input accepted without diagnostic: [{}] is not in the language of entry {}", inputs::show(g, &toks), req.entry))),
        }
    }
}

const RULE06: &str = "accepted grammars without predicates, assertions, ordered choice (profiles as C04; repository grammars of that kind) x ALL strings over the non-skipped alphabet up to the length L with |alphabet|^L <= bound (3000 quick / 60000 thorough) per entry point, plus mutated sentences up to length 20 and trivia variants. Oracle: v = longest viable prefix by the Earley chart; sentence => no diagnostic; else first diagnostic span == span of token v (or end of source if the whole input is viable); every span inside the source with start <= end; starts strictly increasing. non-trivial = non-sentence whose viable prefix has >= 2 tokens and which draws >= 2 diagnostics or ends inside a construct (whole input viable); distinct = (grammar, input)";

impl LabProp for P06 {
    fn id(&self) -> &'static str {
        "C06"
    }
    fn rule(&self) -> &'static str {
        RULE06
    }
    fn profiles(&self, _t: Tier) -> Vec<Profile> {
        profiles04()
    }
    fn n_grammars(&self, t: Tier) -> usize {
        t.pick(60, 600)
    }
    fn extra_grammars(&self, _t: Tier) -> Vec<(Grammar, &'static str)> {
        super::real_grammars().into_iter().filter(|(g, _)| no_user_semantics(g) && plain_cfg(g)).collect()
    }
    fn domain(&self, g: &Grammar, _i: &GInfo) -> Result<(), &'static str> {
        if !no_user_semantics(g) || !plain_cfg(g) {
            return Err("has predicate, assertion or ordered choice");
        }
        if !_i.productive.iter().all(|p| *p) {
            // viable prefixes are only meaningful when every rule derives something
            return Err("a rule is unproductive");
        }
        Ok(())
    }
    fn requests(&self, g: &Grammar, _i: &GInfo, gi: usize, d: &mut Dice<'_>, t: Tier) -> Vec<Req> {
        let alpha = inputs::plain_alphabet(g);
        let bound = t.pick(3000usize, 60000usize);
        let mut out = vec![];
        for entry in 0..=g.parts.len() {
            // all strings up to L
            let k = alpha.len().max(1);
            let mut l = 0;
            let mut total = 1usize;
            while total * k <= bound / (g.parts.len() + 1) && l < 8 {
                total *= k;
                l += 1;
            }
            let mut frontier: Vec<Vec<usize>> = vec![vec![]];
            for _ in 0..l {
                let mut next = vec![];
                for s in &frontier {
                    for a in &alpha {
                        let mut x = s.clone();
                        x.push(*a);
                        next.push(x);
                    }
                }
                for s in &next {
                    let mut r = Req::new(gi, s.clone());
                    r.entry = entry;
                    r.enc = (s.len() % 2) as u8;
                    out.push(r);
                }
                frontier = next;
            }
        }
        let mut more = standard_requests(g, gi, d, t.pick(60, 150), 20);
        for r in more.iter_mut() {
            r.smode = 0;
        }
        out.extend(more);
        out
    }
    fn judge(&self, g: &Grammar, info: &GInfo, req: &Req, rep: &Reply, _m: &mut dyn FnMut(&Req) -> Reply, ev: &mut Evidence) -> Verdict {
        if rep.status != Status::Ok {
            ev.exclude("parse did not return (C03 matter)");
            return Ok(());
        }
        let spans = lab::spans(&req.tokens, req.enc);
        let src_len = spans.last().map_or(0, |s| s.1);
        // positions of non-trivia tokens
        let idx: Vec<usize> = (0..req.tokens.len()).filter(|i| req.tokens[*i] != lab::ERROR_KIND && !g.skip.contains(&req.tokens[*i])).collect();
        let toks: Vec<usize> = idx.iter().map(|i| req.tokens[*i]).collect();
        let (member, v) = info.earley[req.entry].recognize(&toks);
        for (s, e, _) in &rep.diags {
            if s > e || *e > src_len {
                return Err(("span-outside".into(), format!("diagnostic span {s}..{e} outside the source of length {src_len}")));
            }
        }
        for w in rep.diags.windows(2) {
            if w[1].0 <= w[0].0 {
                return Err(("not-increasing".into(), format!("diagnostics at {}..{} and then {}..{}: positions are not strictly increasing on [{}]", w[0].0, w[0].1, w[1].0, w[1].1, inputs::show(g, &req.tokens))));
            }
        }
        if member {
            ev.label("sentences");
            if !rep.diags.is_empty() {
                return Err(("spurious".into(), format!("sentence draws diagnostic {:?}", rep.diags[0])));
            }
            return Ok(());
        }
        ev.label("non_sentences");
        let expected = if v < toks.len() { spans[idx[v]] } else { (src_len, src_len) };
        if v >= 2 && (rep.diags.len() >= 2 || v == toks.len()) {
            ev.nontrivial(&format!("{:?}{:?}{}", g, req.tokens, req.entry));
        }
        match rep.diags.first() {
            None => Err(("silent-accept".into(), format!("non-sentence [{}] accepted silently", inputs::show(g, &toks)))),
            Some((s, e, m)) if (*s, *e) != expected => Err((
                if (*s, *e) < expected { "too-early".to_string() } else { "too-late".to_string() },
                format!("first diagnostic at {s}..{e} ({m}), but the first token after which no sentence can continue is token {v} at {}..{} of [{}]", expected.0, expected.1, inputs::show(g, &req.tokens)),
            )),
            _ => Ok(()),
        }
    }
}

pub fn run04(ctx: &Ctx) -> i32 {
    labrun::main_lab(&P04, ctx)
}
pub fn run06(ctx: &Ctx) -> i32 {
    labrun::main_lab(&P06, ctx)
}
