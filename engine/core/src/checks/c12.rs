//! C12 — the grammar front end accepts any text without panicking and with valid spans.

use super::Ctx;
use crate::dice::Dice;
use crate::ev::{Evidence, Report, Violation};
use crate::ggen::{self, Profile};
use crate::lw;
use crate::prop;
use crate::textgen::{self, ITEMS};
use serde_json::json;

const RULE: &str = "UTF-8 texts: (1) bounded-exhaustive: ALL sequences of up to L lexical items from a 55-item alphabet of the grammar language (keywords, punctuators, identifiers, strings incl. '' / escapes / unterminated / multi-byte, ?1 ?t #1 !1 @a @ <1 1>a > 1> >a, line/doc/block comments incl. unterminated and without final newline, whitespace, stray characters), joined with and without a space (L = 3 quick, 4 thorough); (2) token-level mutations (delete, duplicate, insert, swap, truncate, replace) of every .llw file in the repository and of generated grammars in random layouts; (3) byte soup mixing grammar fragments, ASCII and multi-byte code points. Oracle: lexing + parsing + semantic pass return (no panic); every label range satisfies start <= end <= len on char boundaries; every diagnostic renders (rich and short) with codespan; token leaves of the front end's own CST tile the text. non-trivial = text with >= 1 syntax error that still reaches the semantic pass, or a multi-byte character inside a token that draws a diagnostic; distinct = the text";

pub fn check_text(text: &str, ev: &mut Evidence, origin: &str) -> Result<(), Violation> {
    ev.eval();
    let t2 = text.to_string();
    let info = match lw::catch(move || lw::frontend_check(&t2)) {
        Ok(i) => i,
        Err(p) => {
            let loc = p.split(" at ").last().unwrap_or("").to_string();
            return Err(Violation { sig: format!("panic:{loc}"), what: format!("front end panicked on {:?}: {p}", text.chars().take(80).collect::<String>()), replay: json!({"text": text, "origin": origin}) });
        }
    };
    let multibyte_diag = info.diags.iter().any(|d| d.labels.iter().any(|l| l.end <= text.len() && l.start <= l.end && text.get(l.start..l.end).is_some_and(|s| !s.is_ascii())));
    if (info.n_syntax_diags > 0 && info.reached_sema) || multibyte_diag {
        ev.nontrivial(text);
    }
    if info.n_syntax_diags > 0 {
        ev.label("with_syntax_errors");
    }
    if info.n_sema_diags > 0 {
        ev.label("with_semantic_diagnostics");
    }
    if multibyte_diag {
        ev.label("diagnostic_on_multibyte_text");
    }
    if ev.samples.len() < 5 && ev.evaluations % 7919 == 3 {
        ev.sample(json!({"text": text, "origin": origin, "syntax_diags": info.n_syntax_diags, "sema_diags": info.n_sema_diags}));
    }
    if let Some(b) = info.bad_span {
        let kind = if b.contains("boundaries") { "char-boundary" } else { "outside" };
        let msg = info.diags.iter().find(|d| b.contains(&d.message)).map(|d| d.message.clone()).unwrap_or_default();
        return Err(Violation { sig: format!("span-{kind}:{msg}"), what: format!("{b} for text {:?}", text.chars().take(80).collect::<String>()), replay: json!({"text": text, "origin": origin}) });
    }
    if let Some(r) = info.render_error {
        return Err(Violation { sig: "render".into(), what: r, replay: json!({"text": text, "origin": origin}) });
    }
    if let Some(c) = info.cst_error {
        return Err(Violation { sig: "cst-not-lossless".into(), what: format!("{c} for text {:?}", text.chars().take(80).collect::<String>()), replay: json!({"text": text, "origin": origin}) });
    }
    Ok(())
}

fn enumerate(len: usize, shard: usize, shards: usize, ev: &mut Evidence, vs: &mut Vec<Violation>) {
    let n = ITEMS.len();
    let mut idx = vec![0usize; len];
    let mut counter = 0usize;
    loop {
        counter += 1;
        if counter % shards == shard {
            for sep in ["", " "] {
                let text: String = idx.iter().map(|i| ITEMS[*i]).collect::<Vec<_>>().join(sep);
                if let Err(v) = check_text(&text, ev, "exhaustive") {
                    if vs.len() < 200 {
                        vs.push(v);
                    }
                }
            }
        }
        let mut k = len;
        loop {
            if k == 0 {
                return;
            }
            k -= 1;
            idx[k] += 1;
            if idx[k] < n {
                break;
            }
            idx[k] = 0;
        }
    }
}

pub fn run(ctx: &Ctx) -> i32 {
    let mut ev = Evidence::new("C12", ctx.tier, ctx.seed, RULE);
    let mut rep = Report::new("C12");
    let files = match &ctx.replay {
        Some(p) => vec![p.clone()],
        None => super::replay_files("C12"),
    };
    for f in files {
        let v: serde_json::Value = serde_json::from_str(&std::fs::read_to_string(&f).unwrap()).unwrap();
        if let Some(t) = v["replay"]["text"].as_str() {
            if let Err(v) = check_text(t, &mut ev, "replay") {
                rep.violation(v);
            }
            ev.label("replayed");
        }
    }
    if ctx.replay.is_some() {
        let code = rep.finish(&mut ev);
        ev.write();
        return code;
    }
    // (1) exhaustive item sequences
    let max_len = ctx.tier.pick(3, 4);
    for len in 1..=max_len {
        let shards = ctx.threads;
        let outs: Vec<(Evidence, Vec<Violation>)> = std::thread::scope(|s| {
            let hs: Vec<_> = (0..shards)
                .map(|sh| {
                    let (tier, seed) = (ctx.tier, ctx.seed);
                    s.spawn(move || {
                        let mut ev = Evidence::new("C12", tier, seed, "");
                        let mut vs = vec![];
                        enumerate(len, sh, shards, &mut ev, &mut vs);
                        (ev, vs)
                    })
                })
                .collect();
            hs.into_iter().map(|h| h.join().unwrap()).collect()
        });
        for (e, vs) in outs {
            ev.merge(e);
            for v in vs {
                rep.violation(v);
            }
        }
    }
    ev.exhaustive = Some(false);
    ev.set("exhaustive_subspaces", json!([format!("all sequences of <= {max_len} of {} lexical items, with and without separating space", ITEMS.len())]));
    // (2) mutation corpus
    let corpus = textgen::repo_texts();
    ev.set("corpus_files", json!(corpus.len()));
    let muts = ctx.tier.pick(300_000u32, 3_000_000u32);
    let out = prop::run_prop("C12", ctx.tier, ctx.seed, "mutants", muts, ctx.threads, 64, |stream, ev| {
        let mut d = Dice::new(stream);
        let base = if d.chance(3, 4) && !corpus.is_empty() {
            corpus[d.below(corpus.len())].1.clone()
        } else {
            // a generated grammar in a random layout
            let g = ggen::build(&Profile::text(), stream);
            textgen::layout(&g, &mut d, true).text
        };
        // one in four generated texts is checked as it is (a valid grammar)
        let text = if d.chance(1, 4) { base } else { textgen::mutate_text(&base, &mut d) };
        ev.label("mutants");
        check_text(&text, ev, "mutant")
    });
    ev.merge(out.ev);
    for v in out.violations.into_iter().chain(out.known_hits) {
        rep.violation(v);
    }
    // every-token truncation of every repository file
    for (name, text) in &corpus {
        let lex = textgen::split(text);
        for l in lex.iter().step_by(ctx.tier.pick(7, 1)) {
            if let Err(v) = check_text(&text[..l.start], &mut ev, &format!("truncated {name}")) {
                rep.violation(v);
            }
            ev.label("truncations");
        }
    }
    // (3) soup
    let soups = ctx.tier.pick(200_000u32, 2_000_000u32);
    let out = prop::run_prop("C12", ctx.tier, ctx.seed, "soup", soups, ctx.threads, 48, |stream, ev| {
        let mut d = Dice::new(stream);
        let text = textgen::soup(&mut d, 24);
        ev.label("soup");
        check_text(&text, ev, "soup")
    });
    ev.merge(out.ev);
    for v in out.violations.into_iter().chain(out.known_hits) {
        rep.violation(v);
    }
    let code = rep.finish(&mut ev);
    ev.write();
    code
}
