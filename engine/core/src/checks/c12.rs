//! C12 — the grammar front end accepts any text without panicking and with valid spans.

use super::Ctx;
use crate::dice::Dice;
use crate::ev::{Evidence, Report, Violation};
use crate::ggen::{self, Profile};
use crate::lw;
use crate::prop;
use crate::textgen::{self, ITEMS};
use serde_json::json;

const RULE: &str = "UTF-8 texts: (1) bounded-exhaustive: ALL sequences of up to L lexical items from a 56-item alphabet of the grammar language (keywords, punctuators, identifiers, strings incl. '' / escapes / unterminated / multi-byte, ?1 ?t #1 !1 @a @ <1 1>a > 1> >a, line/doc/block comments incl. unterminated and without final newline, whitespace, stray characters), joined with and without a space (L = 3 quick, 4 thorough); (2) token-level mutations (delete, duplicate, insert, swap, truncate, replace) of every .llw file in the repository and of generated grammars in random layouts; (2b) systematically, for generated grammars (canonical and random layout), EVERY single-lexeme deletion and every third single-lexeme duplication; (3) byte soup mixing grammar fragments, ASCII and multi-byte code points; (4) bracket nesting of depth 100 / 350 (in-process) and 3000 / 20000 (through `llw -c` in a child process: no abort, no panic). Oracle: lexing + parsing + semantic pass return (no panic); every label range satisfies start <= end <= len on char boundaries; every diagnostic renders (rich and short) with codespan; token leaves of the front end's own CST tile the text. non-trivial = text with >= 1 syntax error that still reaches the semantic pass, or a multi-byte character inside a token that draws a diagnostic; distinct = the text";

/// nesting depth up to which a text is evaluated in-process
pub const DEEP: usize = 400;

/// A deeply nested text goes through the real `llw -c` in a child process: the front end is
/// recursive descent, and a stack overflow would take the whole check down with it.
pub fn deep_text_check(text: &str, ev: &mut Evidence, origin: &str) -> Result<(), Violation> {
    ev.eval();
    let llw = super::c17::llw();
    if !llw.exists() {
        ev.exclude("deeply nested text not evaluated (llw binary not built)");
        return Ok(());
    }
    let dir = crate::lab::scratch_root().join(format!("deep-{:?}", std::thread::current().id()).replace(['(', ')'], ""));
    let _ = std::fs::create_dir_all(&dir);
    let file = dir.join("deep.llw");
    std::fs::write(&file, text).unwrap();
    let out = std::process::Command::new(&llw).current_dir(&dir).env("NO_COLOR", "1").args(["-c", file.to_str().unwrap()]).output();
    let _ = std::fs::remove_dir_all(&dir);
    let Ok(out) = out else {
        ev.exclude("deeply nested text not evaluated (llw could not be started)");
        return Ok(());
    };
    ev.label("deep_texts_through_llw");
    let err = String::from_utf8_lossy(&out.stderr);
    let depth = textgen::max_nesting(text);
    if out.status.code().is_none() || err.contains("overflowed its stack") {
        return Err(Violation {
            sig: "abort:deep-nesting".into(),
            what: format!("`llw -c` is killed ({}) on a text with bracket nesting depth {depth}: {}", out.status, err.lines().find(|l| l.contains("overflow") || l.contains("panicked")).unwrap_or("")),
            replay: json!({"text": text, "origin": origin}),
        });
    }
    if err.contains("panicked at") {
        return Err(Violation { sig: "panic:deep-text".into(), what: format!("`llw -c` panics on a text with bracket nesting depth {depth}: {}", err.lines().find(|l| l.contains("panicked")).unwrap_or("")), replay: json!({"text": text, "origin": origin}) });
    }
    Ok(())
}

pub fn check_text(text: &str, ev: &mut Evidence, origin: &str) -> Result<(), Violation> {
    if textgen::max_nesting(text) > DEEP {
        return deep_text_check(text, ev, origin);
    }
    let _case = crate::prop::case_guard("C12", origin, text);
    ev.eval();
    let t2 = text.to_string();
    let info = match lw::catch(move || lw::frontend_check(&t2)) {
        Ok(i) => i,
        Err(p) => {
            let loc = p.split(" at ").last().unwrap_or("").to_string();
            return Err(Violation { sig: format!("panic:{loc}"), what: format!("front end panicked on {:?}: {p}", text.chars().take(80).collect::<String>()), replay: json!({"text": text, "origin": origin}) });
        }
    };
    let multibyte_diag = info.diags.iter().any(|d| d.labels.iter().any(|l| l.end <= text.len() && l.start <= l.end && text.get(l.start..l.end).is_some_and(|s| !s.is_ascii())));
    if (info.n_syntax_diags > 0 && info.reached_sema) || multibyte_diag {
        ev.nontrivial(text);
    }
    if info.n_syntax_diags > 0 {
        ev.label("with_syntax_errors");
    }
    if info.n_sema_diags > 0 {
        ev.label("with_semantic_diagnostics");
    }
    if multibyte_diag {
        ev.label("diagnostic_on_multibyte_text");
    }
    if ev.samples.len() < 5 && ev.evaluations % 7919 == 3 {
        ev.sample(json!({"text": text, "origin": origin, "syntax_diags": info.n_syntax_diags, "sema_diags": info.n_sema_diags}));
    }
    if let Some(b) = info.bad_span {
        let kind = if b.contains("boundaries") { "char-boundary" } else { "outside" };
        let msg = info.diags.iter().find(|d| b.contains(&d.message)).map(|d| d.message.clone()).unwrap_or_default();
        return Err(Violation { sig: format!("span-{kind}:{msg}"), what: format!("{b} for text {:?}", text.chars().take(80).collect::<String>()), replay: json!({"text": text, "origin": origin}) });
    }
    if let Some(r) = info.render_error {
        return Err(Violation { sig: "render".into(), what: r, replay: json!({"text": text, "origin": origin}) });
    }
    if let Some(c) = info.cst_error {
        return Err(Violation { sig: "cst-not-lossless".into(), what: format!("{c} for text {:?}", text.chars().take(80).collect::<String>()), replay: json!({"text": text, "origin": origin}) });
    }
    Ok(())
}

fn enumerate(len: usize, shard: usize, shards: usize, ev: &mut Evidence, vs: &mut Vec<Violation>) {
    let n = ITEMS.len();
    let mut idx = vec![0usize; len];
    let mut counter = 0usize;
    loop {
        counter += 1;
        if counter % shards == shard {
            for sep in ["", " "] {
                let text: String = idx.iter().map(|i| ITEMS[*i]).collect::<Vec<_>>().join(sep);
                if let Err(v) = check_text(&text, ev, "exhaustive") {
                    if vs.len() < 200 {
                        vs.push(v);
                    }
                }
            }
        }
        let mut k = len;
        loop {
            if k == 0 {
                return;
            }
            k -= 1;
            idx[k] += 1;
            if idx[k] < n {
                break;
            }
            idx[k] = 0;
        }
    }
}

pub fn run(ctx: &Ctx) -> i32 {
    let mut ev = Evidence::new("C12", ctx.tier, ctx.seed, RULE);
    let mut rep = Report::new("C12");
    let files = match &ctx.replay {
        Some(p) => vec![p.clone()],
        None => super::replay_files("C12"),
    };
    for f in files {
        let v: serde_json::Value = serde_json::from_str(&std::fs::read_to_string(&f).unwrap()).unwrap();
        if let Some(t) = v["replay"]["text"].as_str() {
            // a replay may be a text on which the front end does not return: same deadline as the watchdog
            let t2 = t.to_string();
            let limit = crate::prop::hang_limit();
            match crate::prop::with_deadline(limit, move || {
                let mut e2 = Evidence::new("C12", crate::ev::Tier::Quick, 0, "");
                check_text(&t2, &mut e2, "replay")
            }) {
                Some(Err(v)) => rep.violation(v),
                Some(Ok(())) => {}
                None => rep.violation(Violation { sig: "no-return".into(), what: format!("the front end does not return within {limit} s on {:?} (usual: well below a millisecond); confirmed in a fresh process", t.chars().take(80).collect::<String>()), replay: json!({"text": t, "origin": "replay"}) }),
            }
            ev.eval();
            ev.label("replayed");
        }
    }
    if ctx.replay.is_some() {
        let code = rep.finish(&mut ev);
        ev.write();
        return code;
    }
    // (1) exhaustive item sequences
    let max_len = ctx.tier.pick(3, 4);
    for len in 1..=max_len {
        let shards = ctx.threads;
        let outs: Vec<(Evidence, Vec<Violation>)> = std::thread::scope(|s| {
            let hs: Vec<_> = (0..shards)
                .map(|sh| {
                    let (tier, seed) = (ctx.tier, ctx.seed);
                    s.spawn(move || {
                        let mut ev = Evidence::new("C12", tier, seed, "");
                        let mut vs = vec![];
                        enumerate(len, sh, shards, &mut ev, &mut vs);
                        (ev, vs)
                    })
                })
                .collect();
            hs.into_iter().map(|h| h.join().unwrap()).collect()
        });
        for (e, vs) in outs {
            ev.merge(e);
            for v in vs {
                rep.violation(v);
            }
        }
    }
    ev.exhaustive = Some(false);
    ev.set("exhaustive_subspaces", json!([format!("all sequences of <= {max_len} of {} lexical items, with and without separating space", ITEMS.len())]));
    // (2) mutation corpus
    let corpus = textgen::repo_texts();
    ev.set("corpus_files", json!(corpus.len()));
    let muts = ctx.tier.pick(300_000u32, 3_000_000u32);
    let out = prop::run_prop("C12", ctx.tier, ctx.seed, "mutants", muts, ctx.threads, 64, |stream, ev| {
        let mut d = Dice::new(stream);
        let base = if d.chance(3, 4) && !corpus.is_empty() {
            corpus[d.below(corpus.len())].1.clone()
        } else {
            // a generated grammar in a random layout
            let g = ggen::build(&Profile::text(), stream);
            textgen::layout(&g, &mut d, true).text
        };
        // one in four generated texts is checked as it is (a valid grammar)
        let text = if d.chance(1, 4) { base } else { textgen::mutate_text(&base, &mut d) };
        ev.label("mutants");
        check_text(&text, ev, "mutant")
    });
    ev.merge(out.ev);
    for v in out.violations.into_iter().chain(out.known_hits) {
        rep.violation(v);
    }
    // (2b) every single-lexeme deletion and duplication of generated grammars (systematic, not
    // sampled: a declaration that lost exactly its name, its colon, one bracket ...)
    let sys = ctx.tier.pick(4_000u32, 60_000u32);
    let out = prop::run_prop("C12", ctx.tier, ctx.seed, "single-edits", sys, ctx.threads, 500, |stream, ev| {
        let g = ggen::build(&Profile::text(), stream);
        let tail: Vec<u32> = stream.iter().rev().take(200).copied().collect();
        let mut d = Dice::new(&tail);
        let text = if d.chance(1, 2) { crate::gm::print(&g).text } else { textgen::layout(&g, &mut d, true).text };
        let lex = textgen::split(&text);
        for (i, l) in lex.iter().enumerate() {
            if l.kind == textgen::LexKind::Ws {
                continue;
            }
            let del = format!("{}{}", &text[..l.start], &text[l.end..]);
            ev.label("single_deletions");
            check_text(&del, ev, "single deletion")?;
            if i % 3 == 0 {
                let dup = format!("{}{} {}", &text[..l.end], &text[l.start..l.end], &text[l.end..]);
                ev.label("single_duplications");
                check_text(&dup, ev, "single duplication")?;
            }
        }
        Ok(())
    });
    ev.merge(out.ev);
    for v in out.violations.into_iter().chain(out.known_hits) {
        rep.violation(v);
    }
    // every-token truncation of every repository file
    for (name, text) in &corpus {
        let lex = textgen::split(text);
        for l in lex.iter().step_by(ctx.tier.pick(7, 1)) {
            if let Err(v) = check_text(&text[..l.start], &mut ev, &format!("truncated {name}")) {
                rep.violation(v);
            }
            ev.label("truncations");
        }
    }
    // (3) soup
    let soups = ctx.tier.pick(200_000u32, 2_000_000u32);
    let out = prop::run_prop("C12", ctx.tier, ctx.seed, "soup", soups, ctx.threads, 48, |stream, ev| {
        let mut d = Dice::new(stream);
        let text = textgen::soup(&mut d, 24);
        ev.label("soup");
        check_text(&text, ev, "soup")
    });
    ev.merge(out.ev);
    for v in out.violations.into_iter().chain(out.known_hits) {
        rep.violation(v);
    }
    // (4) deep nesting, through the real binary in a child process
    for depth in [100usize, 350, 3000, 20000] {
        for (o, c) in [("(", ")"), ("[", "]")] {
            for closed in [true, false] {
                let body = format!("{}A{}", o.repeat(depth), if closed { c.repeat(depth) } else { String::new() });
                let text = format!("token A B;\nstart s;\ns: {body} B;\n");
                ev.label("deep_nesting_texts");
                let r = if depth <= DEEP { check_text(&text, &mut ev, "deep nesting") } else { deep_text_check(&text, &mut ev, "deep nesting") };
                if let Err(v) = r {
                    rep.violation(v);
                }
            }
        }
    }
    if ctx.tier == crate::ev::Tier::Thorough || std::env::var("VERIF_FUZZ").is_ok() {
        fuzz_stage(ctx, &mut ev, &mut rep, &corpus);
    }
    let code = rep.finish(&mut ev);
    ev.write();
    code
}

/// Coverage-guided stage (libFuzzer through cargo-fuzz, target engine/fuzz/fuzz_targets/
/// text_frontend.rs with the C12 and C17 oracles inside the target). The campaign is only
/// approximately reproducible (-seed, -runs, fresh corpus copy); a crash artifact is turned into
/// an ordinary replay and re-judged in-process, which is the reproducible unit.
fn fuzz_stage(ctx: &Ctx, ev: &mut Evidence, rep: &mut Report, corpus: &[(String, String)]) {
    let fuzz_dir = crate::ev::root().join("engine/fuzz");
    let work = crate::lab::scratch_root().join("fuzz");
    let _ = std::fs::remove_dir_all(&work);
    let cdir = work.join("corpus");
    let adir = work.join("artifacts");
    std::fs::create_dir_all(&cdir).unwrap();
    std::fs::create_dir_all(&adir).unwrap();
    for (i, (_, t)) in corpus.iter().enumerate() {
        if t.len() < 4000 {
            let _ = std::fs::write(cdir.join(format!("repo{i}.llw")), t);
        }
    }
    for (i, f) in ["token A B; start s; s: A [B]* | ?1 B;", "token ;", "s: (A", "/* x */ start s; s^: <1 A 1>n @m > ~ & / 'x';"].iter().enumerate() {
        let _ = std::fs::write(cdir.join(format!("frag{i}")), f);
    }
    let dict = work.join("dict");
    let mut dtext = String::new();
    for it in ITEMS {
        let esc: String = it.bytes().map(|b| if b.is_ascii_alphanumeric() { (b as char).to_string() } else { format!("\\x{b:02x}") }).collect();
        dtext.push_str(&format!("\"{esc}\"\n"));
    }
    std::fs::write(&dict, dtext).unwrap();
    let runs = std::env::var("VERIF_FUZZ_RUNS").ok().and_then(|s| s.parse::<u64>().ok()).unwrap_or(ctx.tier.pick(60_000, 1_500_000));
    let build = std::process::Command::new("cargo").current_dir(&fuzz_dir).env("CARGO_NET_OFFLINE", "true").args(["+nightly", "fuzz", "build", "-s", "none", "text_frontend"]).output();
    match build {
        Ok(o) if o.status.success() => {}
        other => {
            ev.exclude(&format!("libFuzzer stage: target could not be built ({})", other.map(|o| String::from_utf8_lossy(&o.stderr).lines().last().unwrap_or("").to_string()).unwrap_or_else(|e| e.to_string())));
            return;
        }
    }
    let jobs = ctx.threads.min(8);
    let out = std::process::Command::new("cargo")
        .current_dir(&fuzz_dir)
        .env("CARGO_NET_OFFLINE", "true")
        .env("VERIF_NO_WATCHDOG", "1")
        .args(["+nightly", "fuzz", "run", "-s", "none", "text_frontend", cdir.to_str().unwrap(), "--"])
        .arg(format!("-artifact_prefix={}/", adir.display()))
        .arg(format!("-dict={}", dict.display()))
        .arg(format!("-seed={}", 1 + ctx.seed % 1_000_000))
        .arg(format!("-runs={}", runs / jobs as u64))
        .args(["-max_len=2048", "-len_control=0", "-print_final_stats=1", "-timeout=20"])
        .arg(format!("-jobs={jobs}"))
        .arg(format!("-workers={jobs}"))
        .output();
    let Ok(out) = out else {
        ev.exclude("libFuzzer stage: could not run");
        return;
    };
    // statistics from the per-job logs (fuzz-<n>.log in the fuzz directory) and stderr
    let mut execs = 0u64;
    let mut text = String::from_utf8_lossy(&out.stderr).to_string();
    for j in 0..jobs {
        let p = fuzz_dir.join(format!("fuzz-{j}.log"));
        if let Ok(t) = std::fs::read_to_string(&p) {
            text.push_str(&t);
            let _ = std::fs::remove_file(&p);
        }
    }
    for l in text.lines() {
        if let Some(v) = l.strip_prefix("stat::number_of_executed_units:") {
            execs += v.trim().parse::<u64>().unwrap_or(0);
        }
    }
    ev.evaluations += execs;
    ev.label_n("libfuzzer_executions", execs);
    ev.set("libfuzzer", json!({"runs_requested": runs, "executions": execs, "jobs": jobs, "seed_corpus_files": corpus.len() + 4}));
    // artifacts -> ordinary replays, judged again in-process
    if let Ok(rd) = std::fs::read_dir(&adir) {
        for e in rd.flatten() {
            let Ok(bytes) = std::fs::read(e.path()) else { continue };
            let Ok(t) = String::from_utf8(bytes) else { continue };
            let mut ev2 = Evidence::new("C12", ctx.tier, ctx.seed, "");
            match check_text(&t, &mut ev2, "libfuzzer artifact") {
                Err(v) => rep.violation(v),
                Ok(()) => {
                    let mut ev3 = Evidence::new("C17", ctx.tier, ctx.seed, "");
                    if let Err(v) = super::c17::check_valid(&t, &mut ev3, "libfuzzer artifact") {
                        // a formatter problem: reported under C12's run as an artifact of the shared target
                        rep.violation(Violation { sig: format!("fuzz-c17:{}", v.sig), what: format!("(found by the shared fuzz target; C17 oracle) {}", v.what), replay: v.replay });
                    } else {
                        ev.exclude("libFuzzer artifact did not reproduce in-process (timeout / OOM of the fuzzer?)");
                    }
                }
            }
        }
    }
    let _ = std::fs::remove_dir_all(&work);
}
