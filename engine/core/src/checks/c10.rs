//! C10 — LL(1) conflicts are reported exactly where the grammar has them.

use super::Ctx;
use crate::alab::{self, Analysis};
use crate::enumr::{self, Family};
use crate::ev::{Evidence, Report, Violation};
use crate::ggen::{self, Profile};
use crate::gm::*;
use crate::prop;
use crate::refan;
use serde_json::json;

const RULE: &str = "reduced grammars passing name resolution: bounded-exhaustive small families plus random grammars (unrepaired and repaired profiles, predicates on branches, Pratt rules whose operator tokens are shared with the rest of the grammar and which refer to themselves in operand, middle and nested positions). Oracle: set of (E011..E014, primary span) expected from the definition of each conflict and the reference first/follow/predict sets; must ⊆ reported ⊆ may (the only don't-care is an unguarded earlier branch against a guarded later one, I-4); E015 never for a reduced grammar. non-trivial = grammar with >=1 construct in conflict and >=1 decision construct free of conflict, or a conflict masked by a predicate; distinct = printed grammar text";

pub fn check_grammar(g: &Grammar, ev: &mut Evidence, origin: &str) -> Result<bool, Violation> {
    ev.eval();
    let a: Analysis = match alab::analyse(g) {
        Ok(a) => a,
        Err(p) => return Err(Violation { sig: format!("panic:{}", p.split(" at ").last().unwrap_or("")), what: format!("semantic pass panicked: {p}"), replay: json!({"grammar": print(g).text, "origin": origin}) }),
    };
    if !refan::is_reduced(g) {
        ev.exclude("not reduced");
        return Ok(false);
    }
    if !a.sets_computed() {
        ev.exclude("lelwel reports a name-resolution/general error");
        return Ok(false);
    }
    let text = &a.printed.text;
    let (must, may) = alab::expected_conflicts(g, &a);
    let got = alab::reported_conflicts(&a);
    // non-triviality
    let decisions = a.flat.nodes.iter().filter(|n| matches!(n.kind, K::Alt | K::Star | K::Plus | K::Opt)).count();
    let masked = a.flat.nodes.iter().enumerate().any(|(id, n)| match n.kind {
        K::Star | K::Plus | K::Opt => alab::has_leading_pred(&a.flat, n.children[0]) && !a.sets.follow[id].inter(&a.sets.predict(n.children[0])).is_empty(),
        _ => false,
    });
    if (!may.is_empty() && decisions > may.len()) || masked {
        ev.nontrivial(text);
    }
    for l in g.feature_labels() {
        ev.label(l);
    }
    ev.label(if may.is_empty() { "conflict_free" } else { "with_conflicts" });
    if ev.samples.len() < 4 && !may.is_empty() && ev.evaluations % 499 == 1 {
        ev.sample(json!({"grammar": text, "origin": origin, "expected": must.iter().map(|(c, s)| format!("{c}@{}..{}", s.0, s.1)).collect::<Vec<_>>()}));
    }
    for m in &must {
        if !got.contains(m) {
            return Err(Violation {
                sig: format!("missed:{}", m.0),
                what: format!("conflict {} at `{}` not reported", m.0, &text[m.1.0..m.1.1]),
                replay: json!({"grammar": text, "origin": origin, "expected": must, "reported": got}),
            });
        }
    }
    for r in &got {
        if !may.contains(r) {
            return Err(Violation {
                sig: format!("spurious:{}", r.0),
                what: format!("conflict {} reported at `{}` but the construct is decidable with one token", r.0, &text[r.1.0..r.1.1]),
                replay: json!({"grammar": text, "origin": origin, "expected": must, "reported": got}),
            });
        }
    }
    if a.run.diags.iter().any(|d| d.code.as_deref() == Some("E015")) {
        return Err(Violation { sig: "spurious:E015".into(), what: "E015 (no tokens consumed) on a grammar in which every rule is productive".into(), replay: json!({"grammar": text, "origin": origin}) });
    }
    Ok(true)
}

pub fn profiles() -> Vec<Profile> {
    vec![
        Profile { repair: false, max_tokens: 3, preds: true, pred_t: true, ..Profile::base("unrepaired-preds") },
        Profile { repair: false, max_tokens: 4, pratt: true, pratt_shared_ops: true, preds: true, parts: true, ..Profile::base("pratt-shared-ops") },
        Profile { preds: true, pred_t: true, pratt: true, parts: true, choice: true, ..Profile::base("repaired") },
        Profile { repair: false, ..Profile::full() },
        Profile { max_rules: 16, max_tokens: 8, depth: 2, name: "big", ..Profile::full() },
    ]
}

pub fn run(ctx: &Ctx) -> i32 {
    let mut ev = Evidence::new("C10", ctx.tier, ctx.seed, RULE);
    let mut rep = Report::new("C10");
    let files = match &ctx.replay {
        Some(p) => vec![p.clone()],
        None => super::replay_files("C10"),
    };
    for f in files {
        let v: serde_json::Value = serde_json::from_str(&std::fs::read_to_string(&f).unwrap()).unwrap();
        if let Some(g) = crate::lw::import(v["replay"]["grammar"].as_str().unwrap_or("")) {
            if let Err(v) = check_grammar(&g, &mut ev, "replay") {
                rep.violation(v);
            }
            ev.label("replayed");
        }
    }
    if ctx.replay.is_some() {
        ev.write();
        return rep.finish(&mut ev);
    }
    let f = |rules, tokens, size, extended| Family { rules, tokens, size, extended };
    let fams: Vec<Family> = ctx.tier.pick(
        vec![f(2, 2, 7, false), f(3, 2, 6, false), f(2, 3, 6, false), f(2, 2, 6, true)],
        vec![f(2, 2, 8, false), f(3, 2, 7, false), f(2, 3, 7, false), f(3, 3, 6, false), f(2, 2, 7, true)],
    );
    for fam in &fams {
        let shards = ctx.threads;
        let outs: Vec<(Evidence, Vec<Violation>, u64)> = std::thread::scope(|s| {
            let hs: Vec<_> = (0..shards)
                .map(|sh| {
                    let (tier, seed) = (ctx.tier, ctx.seed);
                    s.spawn(move || {
                        let mut ev = Evidence::new("C10", tier, seed, "");
                        let mut vs = vec![];
                        let n = enumr::for_each(*fam, sh, shards, &mut |g| {
                            if let Err(v) = check_grammar(g, &mut ev, "exhaustive") {
                                if vs.len() < 50 {
                                    vs.push(v);
                                }
                            }
                        });
                        (ev, vs, n)
                    })
                })
                .collect();
            hs.into_iter().map(|h| h.join().unwrap()).collect()
        });
        let mut total = 0;
        for (e, vs, n) in outs {
            ev.merge(e);
            total += n;
            for v in vs {
                rep.violation(v);
            }
        }
        ev.label_n(&format!("exhaustive:{fam:?}"), total);
    }
    ev.exhaustive = Some(false);
    ev.set("exhaustive_subspaces", json!(fams.iter().map(|f| format!("{f:?}")).collect::<Vec<_>>()));
    let cases = ctx.tier.pick(600_000u32, 3_000_000u32);
    for p in profiles() {
        let out = prop::run_prop("C10", ctx.tier, ctx.seed, p.name, cases / 5, ctx.threads, if p.name == "big" { 900 } else { 400 }, |stream, ev| {
            let g = ggen::build(&p, stream);
            check_grammar(&g, ev, p.name).map(|_| ())
        });
        ev.merge(out.ev);
        for v in out.violations.into_iter().chain(out.known_hits) {
            rep.violation(v);
        }
    }
    crate::fuzzstage::maybe(ctx, "C10", &mut ev, &mut rep);
    let code = rep.finish(&mut ev);
    ev.write();
    code
}
