//! C09 — first / follow / predict sets are exactly the textbook sets.

use super::Ctx;
use crate::alab::{self, Analysis};
use crate::enumr::{self, Family};
use crate::ev::{Evidence, Report, Violation};
use crate::ggen::{self, Profile};
use crate::gm::*;
use crate::prop;
use crate::refan;
use serde_json::json;

const RULE: &str = "grammars: bounded-exhaustive family (<=R rules, <=T tokens, total regex size <=K over tok/ref/concat/alt/opt/star/plus, extended family adds ordered choice and empty parens; unreferenced rules become parts) plus random grammars from choice streams (profiles ebnf, ebnf-unrepaired, full, pratt-heavy); domain = reduced grammars for which lelwel reports no error other than E011-E015/E020/E028/E029. Oracle: first/follow/predict of every regex occurrence == sets from relational closure on an independently built BNF. non-trivial = grammar has a nullable construct followed by something, or recursion, or a part; distinct = printed grammar text";

pub fn nontrivial(g: &Grammar, a: &Analysis) -> bool {
    if !g.parts.is_empty() {
        return true;
    }
    // recursion
    for (i, r) in g.rules.iter().enumerate() {
        if r.body.as_ref().is_some_and(|b| b.any(&|x| matches!(x, Regex::Ref(k) if *k <= i))) {
            return true;
        }
    }
    // nullable construct followed by something inside a concat
    for n in &a.flat.nodes {
        if n.kind == K::Concat {
            for w in n.children.windows(2) {
                if a.sets.nullable[w[0]] && !a.flat.nodes[w[0]].kind.is_marker_like() {
                    return true;
                }
            }
        }
    }
    false
}

/// Evaluate one grammar. Ok(true) = in domain and checked.
pub fn check_grammar(g: &Grammar, ev: &mut Evidence, origin: &str) -> Result<bool, Violation> {
    ev.eval();
    let a = match alab::analyse(g) {
        Ok(a) => a,
        Err(p) => {
            return Err(Violation { sig: format!("panic:{}", p.split(" at ").last().unwrap_or("")), what: format!("semantic pass panicked: {p}"), replay: json!({"grammar": print(g).text, "origin": origin}) });
        }
    };
    if !refan::is_reduced(g) {
        ev.exclude("not reduced");
        return Ok(false);
    }
    if !a.sets_computed() {
        ev.exclude("lelwel reports a name-resolution/general error");
        return Ok(false);
    }
    let mm = alab::compare_sets(g, &a);
    let text = &a.printed.text;
    if nontrivial(g, &a) {
        ev.nontrivial(text);
    }
    for l in g.feature_labels() {
        ev.label(l);
    }
    if a.run.accepted {
        ev.label("accepted");
    } else {
        ev.label("with_conflicts");
    }
    if ev.samples.len() < 4 && ev.evaluations % 997 == 1 {
        ev.sample(json!({"grammar": text, "origin": origin, "nodes_compared": a.flat.nodes.len()}));
    }
    if let Some(m) = mm.first() {
        let kind = a.flat.nodes[m.node].kind.name();
        return Err(Violation {
            sig: format!("{}:{}", m.which, kind),
            what: format!("{} set of `{}` ({}): expected {:?}, lelwel has {:?}", m.which, alab::node_text(&a, m.node), kind, m.expected, m.got),
            replay: json!({"grammar": text, "origin": origin, "node_span": a.printed.spans[m.node], "which": m.which, "expected": m.expected, "got": m.got}),
        });
    }
    Ok(true)
}

pub fn profiles() -> Vec<Profile> {
    vec![
        Profile::ebnf(),
        Profile { repair: false, max_tokens: 3, ..Profile::base("ebnf-unrepaired") },
        Profile { repair: false, ..Profile::full() },
        Profile { max_rules: 8, ..Profile::full() },
        Profile { pratt: true, parts: true, repair: false, ..Profile::base("pratt-mix") },
        // many rules: several fixpoint rounds, long reference chains in both directions of the declaration order
        Profile { max_rules: 16, max_tokens: 8, depth: 2, name: "big", ..Profile::full() },
    ]
}

pub fn run(ctx: &Ctx) -> i32 {
    let mut ev = Evidence::new("C09", ctx.tier, ctx.seed, RULE);
    let mut rep = Report::new("C09");
    // replay mode / regression tier
    let files = match &ctx.replay {
        Some(p) => vec![p.clone()],
        None => super::replay_files("C09"),
    };
    for f in files {
        let v: serde_json::Value = serde_json::from_str(&std::fs::read_to_string(&f).unwrap()).unwrap();
        let text = v["replay"]["grammar"].as_str().unwrap_or("");
        if let Some(g) = crate::lw::import(text) {
            if let Err(v) = check_grammar(&g, &mut ev, "replay") {
                rep.violation(v);
            }
            ev.label("replayed");
        }
    }
    if ctx.replay.is_some() {
        ev.write();
        return rep.finish(&mut ev);
    }
    // exhaustive families
    let f = |rules, tokens, size, extended| Family { rules, tokens, size, extended };
    let fams: Vec<Family> = ctx.tier.pick(
        vec![f(2, 2, 7, false), f(3, 2, 6, false), f(2, 3, 6, false), f(2, 2, 6, true)],
        vec![f(2, 2, 8, false), f(3, 2, 7, false), f(2, 3, 7, false), f(3, 3, 6, false), f(2, 2, 7, true)],
    );
    for fam in &fams {
        let shards = ctx.threads;
        let outs: Vec<(Evidence, Vec<Violation>, u64)> = std::thread::scope(|s| {
            let hs: Vec<_> = (0..shards)
                .map(|sh| {
                    let tier = ctx.tier;
                    let seed = ctx.seed;
                    s.spawn(move || {
                        let mut ev = Evidence::new("C09", tier, seed, "");
                        let mut vs = vec![];
                        let n = enumr::for_each(*fam, sh, shards, &mut |g| {
                            if let Err(v) = check_grammar(g, &mut ev, "exhaustive") {
                                if vs.len() < 50 {
                                    vs.push(v);
                                }
                            }
                        });
                        (ev, vs, n)
                    })
                })
                .collect();
            hs.into_iter().map(|h| h.join().unwrap()).collect()
        });
        let mut total = 0;
        for (e, vs, n) in outs {
            ev.merge(e);
            total += n;
            for v in vs {
                rep.violation(v);
            }
        }
        ev.label_n(&format!("exhaustive:{fam:?}"), total);
    }
    ev.exhaustive = Some(false);
    ev.set("exhaustive_subspaces", json!(fams.iter().map(|f| format!("{f:?}")).collect::<Vec<_>>()));
    // random
    let cases = ctx.tier.pick(600_000u32, 3_000_000u32);
    for p in profiles() {
        let out = prop::run_prop("C09", ctx.tier, ctx.seed, p.name, cases / 6, ctx.threads, if p.name == "big" { 900 } else { 400 }, |stream, ev| {
            let g = ggen::build(&p, stream);
            check_grammar(&g, ev, p.name).map(|_| ())
        });
        ev.merge(out.ev);
        for v in out.violations.into_iter().chain(out.known_hits) {
            rep.violation(v);
        }
    }
    crate::fuzzstage::maybe(ctx, "C09", &mut ev, &mut rep);
    let code = rep.finish(&mut ev);
    ev.write();
    code
}
