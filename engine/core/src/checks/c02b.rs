//! C02 part (b): well-nested histories of tree-builder operations against a reference tree.
//! The working-tree lelwel emits a parser for a fixed five-rule grammar; a small history
//! interpreter appended to the harness module drives `CstData`'s private
//! open / close / close_root / advance / mark / open_before / mark_truncation / truncate and
//! reads every closed node back through children() / get() / span().

use crate::dice::{self, Dice};
use crate::ev::{Evidence, Report, Tier, Violation};
use crate::lab::{self, LabOpts};
use proptest::strategy::ValueTree;
use rayon::prelude::*;
use serde_json::json;

const GRAMMAR: &str = "token A B C W V;\nskip W V;\nstart r0;\nr0: r1 r2;\nr1: A;\nr2: B r3;\nr3: C r4;\nr4: A;\n";
const KINDS: [&str; 6] = ["error", "r0", "r1", "r2", "r3", "r4"];
const RULE_VARIANTS: [&str; 6] = ["Error", "R0", "R1", "R2", "R3", "R4"];
const TOKS: [&str; 5] = ["A", "B", "C", "W", "V"];

const HISTORY_FN: &str = r#"
    pub fn history(prog: &str) -> String {
        use std::collections::HashMap;
        let n_tokens = prog.matches(";a").count() + prog.starts_with('a') as usize + 4;
        let spans: Vec<Span> = (0..n_tokens * 4).map(|i| i..i + 1).collect();
        let mut data = CstData::new(spans);
        let mut opened: HashMap<usize, MarkOpened> = HashMap::new();
        let mut closed: HashMap<usize, MarkClosed> = HashMap::new();
        let mut truncs: HashMap<usize, MarkTruncation> = HashMap::new();
        let rules = [@RULES@];
        let toks = [@TOKS@];
        let mut out: Vec<String> = vec![];
        fn dump(data: &CstData, n: NodeRef, out: &mut String) {
            let sp = data.span(n);
            match data.get(n) {
                Node::Rule(r, _) => {
                    out.push_str(&format!("{:?}{{{}..{}}}[", r, sp.start, sp.end));
                    let mut first = true;
                    for c in data.children(n) {
                        if !first {
                            out.push(' ');
                        }
                        first = false;
                        dump(data, c, out);
                    }
                    out.push(']');
                }
                Node::Token(t, idx) => out.push_str(&format!("{:?}@{}{{{}..{}}}", t, usize::from(idx), sp.start, sp.end)),
            }
        }
        for op in prog.split(';') {
            if op.is_empty() {
                continue;
            }
            let (c, rest) = op.split_at(1);
            let mut nums = rest.split('.').map(|x| x.parse::<usize>().unwrap());
            let a = nums.next().unwrap_or(0);
            let b = nums.next().unwrap_or(0);
            match c {
                "o" => {
                    opened.insert(a, data.open());
                }
                "c" | "r" => {
                    let m = opened.remove(&a).expect("close of unopened register");
                    let cl = if c == "c" { data.close(m, rules[b]) } else { data.close_root(m, rules[b]) };
                    closed.insert(a, cl);
                    let mut s = String::new();
                    dump(&data, NodeRef(cl.0), &mut s);
                    out.push(s);
                }
                "a" => data.advance(toks[a], b == 1),
                "m" => {
                    closed.insert(a, data.mark());
                }
                "b" => {
                    let m = *closed.get(&a).expect("open_before without mark");
                    opened.insert(b, data.open_before(m));
                }
                "t" => {
                    truncs.insert(a, data.mark_truncation());
                }
                "u" => {
                    let t = truncs.get(&a).expect("truncate without mark").clone();
                    data.truncate(t);
                }
                _ => panic!("bad op"),
            }
        }
        out.join("|")
    }
"#;

#[derive(Clone, Debug)]
pub enum Prog {
    /// token kind (0..3 normal), number of trailing skipped tokens
    Tok(usize, usize),
    Node(usize, Vec<Prog>),
    /// mark; body; insert-before-mark + close with each of the kinds in turn
    Marked(Vec<usize>, Vec<Prog>),
    /// snapshot; body; truncate
    Attempt(Vec<Prog>),
}

fn gen_prog(d: &mut Dice<'_>, depth: usize, budget: &mut usize) -> Vec<Prog> {
    let n = d.below(4) + usize::from(depth == 0);
    let mut v = vec![];
    for _ in 0..n {
        if *budget == 0 {
            break;
        }
        *budget -= 1;
        let k = if depth >= 4 { 0 } else { d.below(7) };
        v.push(match k {
            0 | 1 => Prog::Tok(d.below(3), if d.chance(1, 3) { 1 + d.below(2) } else { 0 }),
            2 | 3 => Prog::Node(d.below(6), gen_prog(d, depth + 1, budget)),
            4 | 5 => {
                let nk = 1 + d.below(2);
                Prog::Marked((0..nk).map(|_| d.below(6)).collect(), gen_prog(d, depth + 1, budget))
            }
            _ => Prog::Attempt(gen_prog(d, depth + 1, budget)),
        });
    }
    v
}

/// reference tree with explicit child lists
#[derive(Clone, Debug)]
enum RT {
    Tok { kind: usize, idx: usize, skip: bool },
    Node { kind: usize, ch: Vec<RT> },
}

struct RefState {
    /// stack of open frames (children lists); frame 0 = root
    frames: Vec<Vec<RT>>,
    token_count: usize,
}

fn is_skip(t: &RT) -> bool {
    matches!(t, RT::Tok { skip: true, .. })
}

/// close the top frame as a node of `kind`: trailing skipped leaves move behind it
fn close_frame(st: &mut RefState, kind: usize, is_root: bool) -> RT {
    let mut ch = st.frames.pop().unwrap();
    let mut trailing = vec![];
    if !is_root {
        while ch.last().is_some_and(is_skip) {
            trailing.insert(0, ch.pop().unwrap());
        }
    }
    let node = RT::Node { kind, ch };
    if let Some(parent) = st.frames.last_mut() {
        parent.push(node.clone());
        parent.extend(trailing);
    }
    node
}

fn rt_dump(t: &RT, prev_end: &mut usize, out: &mut String) {
    match t {
        RT::Tok { kind, idx, .. } => {
            out.push_str(&format!("{}@{}{{{}..{}}}", TOKS[*kind], idx, idx, idx + 1));
            *prev_end = idx + 1;
        }
        RT::Node { kind, ch } => {
            // span: first leaf start .. last leaf end, or the end of the preceding token
            fn first_leaf(t: &RT) -> Option<usize> {
                match t {
                    RT::Tok { idx, .. } => Some(*idx),
                    RT::Node { ch, .. } => ch.iter().find_map(first_leaf),
                }
            }
            fn last_leaf(t: &RT) -> Option<usize> {
                match t {
                    RT::Tok { idx, .. } => Some(*idx),
                    RT::Node { ch, .. } => ch.iter().rev().find_map(last_leaf),
                }
            }
            let (s, e) = match (first_leaf(t), last_leaf(t)) {
                (Some(a), Some(b)) => (a, b + 1),
                _ => (*prev_end, *prev_end),
            };
            out.push_str(&format!("{}{{{}..{}}}[", KINDS[*kind], s, e));
            let mut first = true;
            for c in ch {
                if !first {
                    out.push(' ');
                }
                first = false;
                rt_dump(c, prev_end, out);
            }
            out.push(']');
        }
    }
}

/// end of the last token that precedes the most recently closed node (in vector order)
fn prev_end_before_last(st: &RefState) -> usize {
    // tokens before the node = all tokens in earlier siblings / ancestors' earlier children
    fn last_idx(v: &[RT]) -> Option<usize> {
        v.iter().rev().find_map(|t| match t {
            RT::Tok { idx, .. } => Some(*idx),
            RT::Node { ch, .. } => last_idx(ch),
        })
    }
    let mut best = None;
    for (fi, f) in st.frames.iter().enumerate() {
        // in the innermost frame, the node just closed is the last non-trailing-skip element
        let upto = if fi + 1 == st.frames.len() {
            let mut k = f.len();
            while k > 0 && is_skip(&f[k - 1]) {
                k -= 1;
            }
            k.saturating_sub(1)
        } else {
            f.len()
        };
        if let Some(i) = last_idx(&f[..upto]) {
            best = Some(best.map_or(i, |b: usize| b.max(i)));
        }
    }
    best.map_or(0, |i| i + 1)
}

struct Compiler {
    ops: Vec<String>,
    expected: Vec<String>,
    next_reg: usize,
    st: RefState,
}

impl Compiler {
    fn reg(&mut self) -> usize {
        self.next_reg += 1;
        self.next_reg
    }
    fn expect_closed(&mut self, node: &RT) {
        let mut prev = prev_end_before_last(&self.st);
        let mut s = String::new();
        rt_dump(node, &mut prev, &mut s);
        self.expected.push(s);
    }
    fn run(&mut self, p: &[Prog]) {
        for x in p {
            match x {
                Prog::Tok(k, skips) => {
                    self.ops.push(format!("a{k}.0"));
                    let idx = self.st.token_count;
                    self.st.token_count += 1;
                    self.st.frames.last_mut().unwrap().push(RT::Tok { kind: *k, idx, skip: false });
                    for j in 0..*skips {
                        let sk = 3 + (j % 2);
                        self.ops.push(format!("a{sk}.1"));
                        let idx = self.st.token_count;
                        self.st.token_count += 1;
                        self.st.frames.last_mut().unwrap().push(RT::Tok { kind: sk, idx, skip: true });
                    }
                }
                Prog::Node(kind, body) => {
                    let r = self.reg();
                    self.ops.push(format!("o{r}"));
                    self.st.frames.push(vec![]);
                    self.run(body);
                    self.ops.push(format!("c{r}.{kind}"));
                    let node = close_frame(&mut self.st, *kind, false);
                    self.expect_closed(&node);
                }
                Prog::Marked(kinds, body) => {
                    let m = self.reg();
                    self.ops.push(format!("m{m}"));
                    let at = self.st.frames.last().unwrap().len();
                    self.run(body);
                    for kind in kinds {
                        let o = self.reg();
                        self.ops.push(format!("b{m}.{o}"));
                        self.ops.push(format!("c{o}.{kind}"));
                        // wrap the suffix of the current child list
                        let frame = self.st.frames.last_mut().unwrap();
                        let suffix: Vec<RT> = frame.drain(at.min(frame.len())..).collect();
                        self.st.frames.push(suffix);
                        let node = close_frame(&mut self.st, *kind, false);
                        self.expect_closed(&node);
                    }
                }
                Prog::Attempt(body) => {
                    let t = self.reg();
                    self.ops.push(format!("t{t}"));
                    let saved_frames = self.st.frames.clone();
                    let saved_count = self.st.token_count;
                    self.run(body);
                    self.ops.push(format!("u{t}"));
                    self.st.frames = saved_frames;
                    self.st.token_count = saved_count;
                }
            }
        }
    }
}

pub fn compile(prog: &[Prog], leading_skips: usize) -> (String, Vec<String>) {
    let mut c = Compiler { ops: vec![], expected: vec![], next_reg: 0, st: RefState { frames: vec![vec![]], token_count: 0 } };
    c.ops.push("o0".into());
    for j in 0..leading_skips {
        let sk = 3 + (j % 2);
        c.ops.push(format!("a{sk}.1"));
        let idx = c.st.token_count;
        c.st.token_count += 1;
        c.st.frames.last_mut().unwrap().push(RT::Tok { kind: sk, idx, skip: true });
    }
    c.run(prog);
    c.ops.push("r0.1".into());
    let root = close_frame(&mut c.st, 1, true);
    let mut prev = 0;
    let mut s = String::new();
    rt_dump(&root, &mut prev, &mut s);
    c.expected.push(s);
    (c.ops.join(";"), c.expected)
}

fn has_attempt_after_marked(p: &[Prog]) -> bool {
    let mut seen_marked = false;
    for x in p {
        match x {
            Prog::Marked(_, b) => {
                if b.is_empty() {
                    return true;
                }
                seen_marked = true;
                if has_attempt_after_marked(b) {
                    return true;
                }
            }
            Prog::Attempt(b) => {
                if seen_marked || has_attempt_after_marked(b) {
                    return true;
                }
            }
            Prog::Node(_, b) => {
                if has_attempt_after_marked(b) {
                    return true;
                }
            }
            _ => {}
        }
    }
    false
}

/// Run the history part; merges into `ev` / `rep`. Returns false if the harness could not be built.
pub fn run_histories(tier: Tier, seed: u64, threads: usize, ev: &mut Evidence, rep: &mut Report) -> bool {
    let g = crate::lw::import(GRAMMAR).expect("fixed grammar");
    let text = crate::gm::print(&g).text;
    // build one runner with the history interpreter appended to the module
    let dir = lab::scratch_root().join("c02b");
    let _ = std::fs::remove_dir_all(&dir);
    std::fs::create_dir_all(&dir).unwrap();
    match lab::prepare_module(&dir, 0, &g, &text, &LabOpts { instrument: false, metadata_only: false }) {
        lab::Prep::Ok { .. } => {}
        other => {
            ev.exclude(&format!("history harness: fixed grammar not accepted: {other:?}"));
            return false;
        }
    }
    let path = dir.join("g0.rs");
    let module = std::fs::read_to_string(&path).unwrap();
    let cut = module.rfind('}').unwrap();
    let hist = HISTORY_FN
        .replace("@RULES@", &RULE_VARIANTS.iter().map(|r| format!("Rule::{r}")).collect::<Vec<_>>().join(", "))
        .replace("@TOKS@", &TOKS.iter().map(|t| format!("Token::{t}")).collect::<Vec<_>>().join(", "));
    // route sources that start with 'H' to the history interpreter
    let module = format!("{}{}\n}}\n", &module[..cut], hist).replace("    pub fn run(req: &Req) -> String {", "    pub fn run(req: &Req) -> String {\n        if let Some(p) = req.source.strip_prefix('H') {\n            let p = p.to_string();\n            return match std::panic::catch_unwind(move || history(&p)) {\n                Ok(s) => s,\n                Err(e) => format!(\"PANIC {} at {}\", payload_status(&e), PANIC_LOC.with(|p| p.borrow().clone())),\n            };\n        }");
    std::fs::write(&path, module).unwrap();
    lab::write_main(&dir, &[0]);
    if let Err(e) = lab::rustc(&dir, false) {
        ev.exclude(&format!("history harness does not compile: {}", e.first().map(|x| x.message.clone()).unwrap_or_default()));
        eprintln!("history harness does not compile: {e:?}");
        return false;
    }
    let exe = dir.join("runner");
    let n = tier.pick(20_000usize, 400_000usize);
    let per = n.div_ceil(threads);
    let pool = rayon::ThreadPoolBuilder::new().num_threads(threads).build().unwrap();
    let results: Vec<(Evidence, Vec<Violation>)> = pool.install(|| {
        (0..threads)
            .into_par_iter()
            .map(|t| {
                let mut ev = Evidence::new("C02", tier, seed, "");
                let mut vs = vec![];
                let mut runner = dice::runner(dice::mix(seed, &[dice::tag("C02b"), t as u64]), 1);
                let mut child = std::process::Command::new(&exe).stdin(std::process::Stdio::piped()).stdout(std::process::Stdio::piped()).stderr(std::process::Stdio::null()).spawn().expect("runner");
                let mut stdin = child.stdin.take().unwrap();
                let mut stdout = std::io::BufReader::new(child.stdout.take().unwrap());
                use std::io::{BufRead, Write};
                for tree in dice::draw_trees(&mut runner, 200, per) {
                    let stream = tree.current();
                    let mut d = Dice::new(&stream);
                    let lead = if d.chance(1, 3) { 1 + d.below(2) } else { 0 };
                    let mut budget = 60usize;
                    let prog = gen_prog(&mut d, 0, &mut budget);
                    let (ops, expected) = compile(&prog, lead);
                    ev.eval();
                    ev.label("histories");
                    if has_attempt_after_marked(&prog) {
                        ev.nontrivial(&ops);
                    }
                    if ev.samples.len() < 2 && ev.evaluations % 331 == 1 {
                        ev.sample(json!({"history_ops": ops, "closed_nodes_expected": expected.len()}));
                    }
                    if writeln!(stdin, "0 0 0 0 0 0 0 s:H{ops}").is_err() || stdin.flush().is_err() {
                        break;
                    }
                    let mut line = String::new();
                    if stdout.read_line(&mut line).unwrap_or(0) == 0 {
                        vs.push(Violation { sig: "history-runner-died".into(), what: "history interpreter died".into(), replay: json!({"history_ops": ops}) });
                        break;
                    }
                    let got: Vec<&str> = line.trim_end().split('|').collect();
                    if line.starts_with("PANIC") {
                        vs.push(Violation { sig: "history-panic".into(), what: format!("tree builder panicked on a well-nested history: {}", line.trim_end()), replay: json!({"history_ops": ops, "program": format!("{prog:?}")}) });
                        continue;
                    }
                    if got.len() != expected.len() || got.iter().zip(&expected).any(|(a, b)| a != b) {
                        let i = got.iter().zip(&expected).position(|(a, b)| a != b).unwrap_or(got.len().min(expected.len()));
                        vs.push(Violation {
                            sig: "history-tree-differs".into(),
                            what: format!("after close #{i} of a well-nested builder history the node read back is `{}` but the reference tree has `{}`", got.get(i).unwrap_or(&""), expected.get(i).map(|s| s.as_str()).unwrap_or("")),
                            replay: json!({"history_ops": ops, "program": format!("{prog:?}")}),
                        });
                        if vs.len() > 5 {
                            break;
                        }
                    }
                }
                let _ = child.kill();
                let _ = child.wait();
                (ev, vs)
            })
            .collect()
    });
    let mut n_viol = 0;
    for (e, vs) in results {
        ev.merge(e);
        for v in vs {
            n_viol += 1;
            if n_viol <= 6 {
                rep.violation(v);
            }
        }
    }
    let _ = std::fs::remove_dir_all(&dir);
    true
}
