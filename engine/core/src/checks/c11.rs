//! C11 — accepted grammars yield parsers that compile; rejected grammars yield none.
//! Runs the real `llw` binary in a fresh directory per grammar, then type-checks the emitted
//! parser (uninstrumented) inside a harness module with bare rustc, a whole batch at a time.

use super::Ctx;
use crate::dice::{self, Dice};
use crate::ev::{self, Evidence, Report, Violation};
use crate::ggen::{self, Profile};
use crate::gm::*;
use crate::lab;
use crate::lw;
use proptest::strategy::ValueTree;
use rayon::prelude::*;
use serde_json::json;
use std::path::{Path, PathBuf};
use std::process::Command;

const RULE: &str = "grammar files: grammars from choice streams at full feature density (every operator and declaration kind, empty rules, empty parens, rename / creation in any rule incl. the start rule, unindexed creation in elided and non-elided rules, predicates on every legal position, parts, tricky rule / node / token names), the repository's own grammars, and the same grammars with one injected semantic error of every kind; each processed by the real `llw` binary (`llw -g -o <dir> g.llw`) in a fresh directory. Oracle: exit 0 => no panic, generated.rs exists and type-checks (rustc --emit=metadata) inside a module providing a Token enum and a complete ParserCallbacks impl derived from the emitted trait, parser.gv exists with balanced braces; exit 1 => neither generated.rs nor lexer.rs, parser.rs, parser.gv exist; any other exit status (panic) is a violation. non-trivial = accepted grammar with >= 3 distinct operator kinds, or a rejected one whose only errors are the injected kind; distinct = grammar text";

pub fn llw_path() -> PathBuf {
    ev::root().join("engine/target/repo-bins/debug/llw")
}

const INJECTIONS: &[(&str, &str)] = &[
    ("E003", "\nzz1: undefined_rule_x;\n"),
    ("E004", "\nzz1: UndefinedTokenX;\n"),
    ("E004s", "\nzz1: 'undefined symbol';\n"),
    ("E005", "\ntoken A;\n"),
    ("E005r", "\nr0: A;\n"),
    ("E006", "\nUpperRule: A;\n"),
    ("E007", "\ntoken lowerTok;\n"),
    ("E008", "\n"), // handled specially: start declaration removed
    ("E009", "\nzz1: r0;\n"),
    ("E010", "\ntoken EOF;\n"),
    ("E010e", "\ntoken Error;\n"),
    ("E010r", "\nerror: A;\n"),
    ("E002", "\nzz1: A ?1 A;\n"),
    ("E016", "\ntoken Zsk; skip Zsk Zsk;\n"),
    ("E017", "\ntoken Zsk; skip Zsk; zz1: Zsk;\n"),
    ("E018", "\nskip r0;\n"),
    ("E019", "\ntoken Zr; right Zr Zr;\n"),
    ("E020", "\ntoken Zl Zr; right Zr; zz1: zz1 (Zl | Zr) zz1 | A;\n"),
    ("E021", "\nzz1: zz1 A ^ | A;\n"),
    ("E022", "\nzz1: <1 A <1 A;\n"),
    ("E023", "\nzz1: A 7>zz2;\n"),
    ("E024", "\nzz1: (A | <1 A) 1>zz2;\n"),
    ("E025", "\nzz1: zz1 A > | A;\n"),
    ("E026", "\nstart A;\n"),
    ("E027", "\nzz1: A @;\n"),
    ("E028", "\nzz1: (A / (A A / A)) A;\n"),
    ("E029", "\nzz1: A #1 A / A;\n"),
    ("E030", "\n"), // handled specially: & appended to the start rule
    ("E031", "\nstart r0;\n"),
    ("E032", "\n"), // handled specially: ^ in the start rule
    ("E033", "\nzz1: A; part zz1 zz1;\n"),
    ("E034", "\npart r0;\n"),
    // the same guards in other shapes (a guard that only recognises one shape lets the back end
    // emit code that does not compile)
    ("E025b", "\nzz1: zz1 A zz1 | A >;\n"),
    ("E025c", "\nzz1: zz1 A zz1 > | A;\n"),
    ("E025d", "\nzz1: zz1 A zz1 | A zz1 | A >zz2;\n"),
    ("E021b", "\nzz1: zz1 A zz1 ^ | A;\n"),
    ("E021c", "\nzz1^: zz1 A zz1 | A;\n"),
    ("E021d", "\nzz1: zz1 A | zz1 A zz1 ^ | A;\n"),
    ("E028b", "\nzz1: (zz2 / A) A; zz2: A A / A;\n"),
    ("E028c", "\nzz1: A [A A / A] / A;\n"),
    ("E029b", "\nzz1: zz2 A / A; zz2: A #1;\n"),
    ("E029c", "\nzz1: (A (A #2)* / A) A;\n"),
    ("E024b", "\nzz1: [<1 A] A 1>zz2;\n"),
    ("E024c", "\nzz1: (<1 A)* 1>zz2;\n"),
    ("E023b", "\nzz1: A 1>zz2 <1 A;\n"),
    ("E009b", "\nzz1: A [r0];\n"),
    ("E020b", "\ntoken Zl Zr Zc; right Zr; zz1: zz1 (Zl | Zr) zz1 Zc zz1 | A;\n"),
    ("E017b", "\ntoken Zsk = 'zsk'; skip Zsk; zz1: 'zsk';\n"),
    ("E011", "\nzz1: A A | A;\n"),
    ("E013", "\nzz1: A* A;\n"),
    ("E014", "\nzz1: [A] A;\n"),
    ("E015", "\nzz1: zz2; zz2: zz1;\n"),
    ("syntax", "\nzz1: A | ;\n"),
    ("W-only", "\nzz1: <1 A;\n"),
];

fn inject(text: &str, g: &Grammar, which: usize) -> (String, &'static str) {
    let (name, snippet) = INJECTIONS[which % INJECTIONS.len()];
    let mut t = text.to_string();
    match name {
        "E008" => {
            t = t.replace(&format!("start {} ;", g.rules[g.start].name), "");
        }
        "E030" | "E032" => {
            let op = if name == "E030" { "&" } else { "^" };
            t.push_str(&format!("\ntoken Zq; zq0: Zq {op};\n"));
            // make zq0 the only start rule
            t = t.replace(&format!("start {} ;", g.rules[g.start].name), "start zq0 ;");
        }
        _ => {
            t.push_str(snippet);
            // the injected rule is made an entry point: code is only emitted for rules that are
            // used, and a weakened guard shows in the emitted code
            if (snippet.contains("zz1:") || snippet.contains("zz1^:")) && name != "E033" {
                t.push_str("part zz1;\n");
            }
        }
    }
    (t, name)
}

/// give some rules / tokens names that are awkward for the code generator
fn tricky_names(g: &mut Grammar, d: &mut Dice<'_>) -> bool {
    const RULE_NAMES: &[&str] = &["self_", "type_x", "foo_bar", "fooBar", "r__x", "a1_2b", "node", "rule", "token", "part_x", "cst", "parser_"];
    const TOK_NAMES: &[&str] = &["Tok1", "T_x", "Node", "Rule", "Span", "Cst", "Parser", "Some_", "Vec_", "EoF", "Errorx"];
    let mut changed = false;
    for i in 1..g.rules.len() {
        if d.chance(1, 3) {
            let n = RULE_NAMES[d.below(RULE_NAMES.len())];
            if !g.rules.iter().any(|r| r.name == n) {
                let old = g.rules[i].name.clone();
                g.rules[i].name = n.to_string();
                // creation / rename operators that reused the old rule name keep pointing to a rule
                for r in g.rules.iter_mut() {
                    if let Some(b) = r.body.as_mut() {
                        rename_nodes(b, &old, n);
                    }
                }
                changed = true;
            }
        }
    }
    for t in 0..g.tokens.len() {
        if d.chance(1, 4) {
            let n = TOK_NAMES[d.below(TOK_NAMES.len())];
            if !g.tokens.iter().any(|x| x.name == n) {
                g.tokens[t].name = n.to_string();
                changed = true;
            }
        }
    }
    changed
}

fn rename_nodes(r: &mut Regex, old: &str, new: &str) {
    match r {
        Regex::Rename(n) if n == old => *n = new.to_string(),
        Regex::Create(_, Some(n)) if n == old => *n = new.to_string(),
        _ => {}
    }
    for c in r.children_mut() {
        rename_nodes(c, old, new);
    }
}

pub fn profiles() -> Vec<Profile> {
    vec![
        Profile { max_rules: 6, ..Profile::text() },
        Profile { c11_shapes: true, nodeops: true, parts: true, skips: true, empty_rules: true, actions: true, preds: true, asserts: true, returns: true, ..Profile::base("nodeops-dense") },
        Profile { c11_shapes: true, choice: true, choice_weight: 6, nodeops: true, asserts: true, parts: true, ..Profile::base("choice-dense") },
        Profile { c11_shapes: true, pratt: true, nodeops: true, preds: true, parts: true, empty_rules: true, ..Profile::base("pratt-dense") },
        Profile { repair: false, c11_shapes: true, ..Profile::full() },
    ]
}

struct Case {
    text: String,
    origin: String,
    injected: Option<&'static str>,
}

struct CaseResult {
    exit: Option<i32>,
    stderr: String,
    files: Vec<String>,
    gv_ok: bool,
    module_ready: bool,
}

fn run_llw(dir: &Path, text: &str) -> CaseResult {
    std::fs::create_dir_all(dir).unwrap();
    std::fs::write(dir.join("g.llw"), text).unwrap();
    let out = Command::new(llw_path()).current_dir(dir).args(["-g", "-s", "-o", ".", "g.llw"]).env("NO_COLOR", "1").output().expect("cannot run llw");
    let mut files: Vec<String> = std::fs::read_dir(dir).unwrap().flatten().map(|e| e.file_name().to_string_lossy().to_string()).filter(|n| n != "g.llw").collect();
    files.sort();
    let gv_ok = std::fs::read_to_string(dir.join("parser.gv")).map(|s| s.starts_with("digraph {") && s.trim_end().ends_with('}') && s.matches('{').count() >= 1).unwrap_or(false);
    CaseResult { exit: out.status.code(), stderr: String::from_utf8_lossy(&out.stderr).to_string(), files, gv_ok, module_ready: false }
}

fn panic_line(stderr: &str) -> String {
    stderr.lines().find(|l| l.contains("panicked at")).map(|l| l.to_string()).unwrap_or_else(|| stderr.lines().last().unwrap_or("").to_string())
}

fn backticked(msg: &str) -> String {
    let mut it = msg.split('`');
    it.next();
    it.next().unwrap_or("").to_string()
}

fn op_kinds(text: &str) -> usize {
    ["*", "+", "[", "|", "/", "?", "#", "!", "@", "^", "<", ">", "~", "&"].iter().filter(|o| text.contains(**o)).count()
}

fn process_batch(cases: &[(usize, &Case)], batch_id: usize) -> (Evidence, Vec<Violation>) {
    let mut ev = Evidence::new("C11", ev::Tier::Quick, 0, "");
    let mut vs = vec![];
    let dir = lab::scratch_root().join(format!("c11-{batch_id}"));
    let _ = std::fs::remove_dir_all(&dir);
    std::fs::create_dir_all(&dir).unwrap();
    let mut results = vec![];
    let mut mods = vec![];
    for (k, (_, c)) in cases.iter().enumerate() {
        ev.eval();
        let sub = dir.join(format!("g{k}"));
        let mut r = run_llw(&sub, &c.text);
        let replay = json!({"grammar": c.text, "origin": c.origin, "injected": c.injected});
        match r.exit {
            Some(0) => {
                ev.label("accepted");
                if op_kinds(&c.text) >= 3 {
                    ev.nontrivial(&c.text);
                }
                if !r.files.contains(&"generated.rs".to_string()) {
                    vs.push(Violation { sig: "accepted-but-no-parser".into(), what: "llw exits 0 but wrote no generated.rs".into(), replay: replay.clone() });
                }
                if !r.gv_ok {
                    vs.push(Violation { sig: "graph-missing-or-unbalanced".into(), what: "llw -g exits 0 but parser.gv is missing or not a balanced digraph".into(), replay: replay.clone() });
                }
                // wrap for type checking
                let text = c.text.clone();
                match lw::catch(move || lw::import(&text)) {
                    Ok(Some(g)) if g.tokens.len() <= lab::ALPHABET.len() => {
                        if let Ok(generated) = std::fs::read_to_string(sub.join("generated.rs")) {
                            std::fs::write(dir.join(format!("g{k}.rs")), lab::module_text(k, &g, &generated)).unwrap();
                            mods.push(k);
                            r.module_ready = true;
                        }
                    }
                    _ => ev.exclude("accepted grammar could not be re-imported for wrapping"),
                }
            }
            Some(1) => {
                ev.label("rejected");
                if let Some(inj) = c.injected {
                    ev.label(&format!("injected:{inj}"));
                    ev.nontrivial(&c.text);
                }
                for f in ["generated.rs", "lexer.rs", "parser.rs", "parser.gv"] {
                    if r.files.iter().any(|x| x == f) {
                        vs.push(Violation { sig: format!("rejected-but-wrote:{f}"), what: format!("llw exits 1 (error reported) but {f} was written"), replay: replay.clone() });
                    }
                }
            }
            other => {
                let line = panic_line(&r.stderr);
                let loc = line.split("panicked at ").nth(1).unwrap_or(&line).split(':').take(2).collect::<Vec<_>>().join(":");
                vs.push(Violation { sig: format!("panic:{loc}"), what: format!("llw terminated abnormally (status {other:?}): {line}"), replay: replay.clone() });
            }
        }
        results.push(r);
    }
    // type check all accepted ones at once; drop failing modules and retry
    let mut mods_left = mods.clone();
    for _ in 0..8 {
        if mods_left.is_empty() {
            break;
        }
        lab::write_main(&dir, &mods_left);
        match lab::rustc(&dir, true) {
            Ok(()) => break,
            Err(errs) => {
                let mut any = false;
                for k in mods_left.clone() {
                    let mine: Vec<&lab::CompileError> = errs.iter().filter(|e| e.module == Some(k)).collect();
                    if let Some(e) = mine.first() {
                        any = true;
                        mods_left.retain(|x| *x != k);
                        let c = cases[k].1;
                        vs.push(Violation {
                            sig: format!("rustc:{}:{}", e.code, backticked(&e.message)),
                            what: format!("emitted parser does not compile: {}", mine.iter().take(3).map(|e| e.message.clone()).collect::<Vec<_>>().join(" | ")),
                            replay: json!({"grammar": c.text, "origin": c.origin, "injected": c.injected}),
                        });
                    }
                }
                if !any {
                    ev.exclude(&format!("INFRA: rustc failed without attributable module: {}", errs.first().map(|e| e.message.clone()).unwrap_or_default()));
                    break;
                }
            }
        }
    }
    ev.label_n("type_checked", mods.len() as u64);
    if ev.samples.len() < 2 {
        if let Some((_, c)) = cases.first() {
            ev.sample(json!({"grammar": c.text, "origin": c.origin, "exit": results[0].exit, "files": results[0].files}));
        }
    }
    let _ = std::fs::remove_dir_all(&dir);
    (ev, vs)
}

pub fn run(ctx: &Ctx) -> i32 {
    let mut ev = Evidence::new("C11", ctx.tier, ctx.seed, RULE);
    let mut rep = Report::new("C11");
    let mut cases: Vec<Case> = vec![];
    let files = match &ctx.replay {
        Some(p) => vec![p.clone()],
        None => super::replay_files("C11"),
    };
    for f in &files {
        if let Ok(s) = std::fs::read_to_string(f) {
            if let Ok(v) = serde_json::from_str::<serde_json::Value>(&s) {
                if let Some(t) = v["replay"]["grammar"].as_str() {
                    cases.push(Case { text: t.to_string(), origin: format!("replay {}", f.display()), injected: None });
                }
            }
        }
    }
    if ctx.replay.is_none() {
        for (g, _) in super::real_grammars() {
            cases.push(Case { text: print(&g).text, origin: "real".into(), injected: None });
        }
        let n = ctx.tier.pick(260, 5000);
        let mut runner = dice::runner(dice::mix(ctx.seed, &[dice::tag("C11")]), 1);
        for prof in profiles() {
            for t in dice::draw_trees(&mut runner, 600, n) {
                let stream = t.current();
                let mut g = ggen::build(&prof, &stream);
                // the tail of the stream drives names / injection
                let tail: Vec<u32> = stream.iter().rev().take(40).copied().collect();
                let mut d = Dice::new(&tail);
                let mode = d.below(8);
                if mode == 1 || mode == 2 {
                    tricky_names(&mut g, &mut d);
                }
                // token symbols end up inside string literals of the emitted code: quotes,
                // backslashes, braces, non-ASCII
                if mode == 5 || mode == 6 || mode == 2 {
                    super::c13::toughen(&mut g, &mut d);
                    // symbols are referenced by name as well as by symbol: make sure a toughened one is used by name
                    for r in g.rules.iter_mut() {
                        if let Some(b) = r.body.as_mut() {
                            fn by_name(r: &mut Regex, d: &mut Dice<'_>) {
                                if let Regex::Tok(_, sym) = r {
                                    if d.chance(1, 2) {
                                        *sym = false;
                                    }
                                }
                                for c in r.children_mut() {
                                    by_name(c, d);
                                }
                            }
                            by_name(b, &mut d);
                        }
                    }
                }
                let text = print(&g).text;
                if mode == 3 || mode == 4 {
                    let (t2, name) = inject(&text, &g, d.below(INJECTIONS.len()));
                    cases.push(Case { text: t2, origin: prof.name.to_string(), injected: Some(name) });
                } else {
                    cases.push(Case { text, origin: prof.name.to_string(), injected: None });
                }
            }
        }
        // every injection at least once on a fixed base grammar
        let base = "token A B;\nstart r0 ;\nr0: A r1;\nr1: B;\n";
        let gb = lw::import(base).unwrap();
        for i in 0..INJECTIONS.len() {
            let (t2, name) = inject(base, &gb, i);
            cases.push(Case { text: t2, origin: "fixed-base".into(), injected: Some(name) });
        }
    }
    let indexed: Vec<(usize, &Case)> = cases.iter().enumerate().collect();
    let pool = rayon::ThreadPoolBuilder::new().num_threads(ctx.threads).build().unwrap();
    let chunks: Vec<(usize, &[(usize, &Case)])> = indexed.chunks(32).enumerate().collect();
    let results: Vec<(Evidence, Vec<Violation>)> = pool.install(|| chunks.par_iter().map(|(i, c)| process_batch(c, *i)).collect());
    for (e, vs) in results {
        ev.merge(e);
        for v in vs {
            rep.violation(v);
        }
    }
    lab::cleanup_scratch();
    let code = rep.finish(&mut ev);
    ev.write();
    code
}
