//! C20 — the language server survives any session and answers from the latest text.
//! Stateful, model-based: histories of open/change/close/requests over several documents are
//! generated from a choice stream, executed in-process on `ide::Cache` and replayed over stdio
//! against the real `lelwel-ls` binary.

use super::Ctx;
use crate::dice::Dice;
use crate::ev::{self, Evidence, Report, Violation};
use crate::ggen::{self, Profile};
use crate::gm::print;
use crate::lw;
use crate::prop;
use crate::textgen::{self, LexKind};
use lelwel::ide::Cache;
use lsp_types::*;
use serde_json::{Value, json};
use std::collections::BTreeMap;
use std::io::{BufRead, BufReader, Read, Write};
use std::process::{Command, Stdio};

const RULE: &str = "histories of up to 25 steps over up to 3 file:// documents generated from a choice stream as vec(op) + interpreter with a document model (requests only on open documents): Open / Change / Close / Hover / Definition / References(with and without declaration) / Completion / Formatting; texts: generated valid grammars (canonical and random commented layouts with é and 😀 in comments and symbols), token-level mutants, prefixes cut at token boundaries, half-typed fragments (`token ;`, `a:`, empty text, ...); positions: every line, character 0..=len16+2 (past the line end), never inside a surrogate pair. Oracles in-process on ide::Cache: no call panics; after every step a liveness probe on every open document; diagnostics == lexer+parser+semantic pass on the model's latest text (code, severity, message, range by our own byte->UTF-16 conversion, hints for secondary labels); definition/references coherence with the names in the text; hover sets == the semantic pass's sets for that node; formatting edit == format(text) over the whole document; every returned range inside the latest text. Over stdio against the real lelwel-ls: every request gets exactly one response, equal to the in-process answer; published diagnostics equal; the process survives until shutdown/exit and exits 0; message pacing varied (bursts, delays, split writes). non-trivial = history with a Change between two requests on the same document, on a text with a syntax error, and a request at or beyond a line end; distinct = the history";

#[derive(Clone, Debug)]
pub enum Op {
    Open(usize, String),
    Change(usize, String),
    Close(usize),
    Hover(usize, u32, u32),
    Def(usize, u32, u32),
    Refs(usize, u32, u32, bool),
    Completion(usize, u32, u32),
    Formatting(usize),
}

const FRAGMENTS: &[&str] = &["token ;", "", "a:", "start", "token A", "token A='é😀'; start s; s: 'é😀';", "s: (", "s: [A", "right ;", "skip", "part p", "x^:", "token A; start s; s: A @", "/* unterminated", "'", "token A B;\nstart s;\ns: A\n", "\n\n", "s: ?1 s | A;"];

pub fn gen_text(d: &mut Dice<'_>, stream: &[u32]) -> String {
    match d.below(8) {
        0 => FRAGMENTS[d.below(FRAGMENTS.len())].to_string(),
        1 | 2 => {
            let g = ggen::build(&Profile::full(), stream);
            print(&g).text
        }
        3 => {
            let g = ggen::build(&Profile::text(), stream);
            textgen::layout(&g, d, true).text
        }
        4 => {
            // documented grammar: doc comments of several shapes in front of the declarations
            // (hover on a reference shows the documentation of what it refers to)
            const DOCS: &[&str] = &["", " plain words", "→ arrow first", "äöü: umlauts", " `code` and *markdown*", "é😀", "   indented", "/ four slashes", "\t tab"];
            let g = ggen::build(&Profile::full(), stream);
            let mut out = String::new();
            for line in print(&g).text.lines() {
                if !line.trim().is_empty() && d.chance(1, 2) {
                    for _ in 0..1 + d.below(2) {
                        out.push_str("///");
                        out.push_str(DOCS[d.below(DOCS.len())]);
                        out.push('\n');
                    }
                }
                out.push_str(line);
                out.push('\n');
            }
            out
        }
        5 => {
            let g = ggen::build(&Profile::ebnf(), stream);
            let t = textgen::layout(&g, d, true).text;
            textgen::mutate_text(&t, d)
        }
        6 => {
            let g = ggen::build(&Profile::full(), stream);
            let t = print(&g).text;
            let lex = textgen::split(&t);
            if lex.is_empty() { t } else { t[..lex[d.below(lex.len())].start].to_string() }
        }
        _ => {
            let corpus = textgen::repo_texts();
            if corpus.is_empty() { String::new() } else { textgen::mutate_text(&corpus[d.below(corpus.len())].1, d) }
        }
    }
}

/// lines of the text as (byte start, byte end without the newline)
fn lines(text: &str) -> Vec<(usize, usize)> {
    let mut v = vec![];
    let mut s = 0;
    for (i, b) in text.bytes().enumerate() {
        if b == b'\n' {
            v.push((s, i));
            s = i + 1;
        }
    }
    v.push((s, text.len()));
    v
}

fn utf16_len(s: &str) -> u32 {
    s.chars().map(|c| c.len_utf16() as u32).sum()
}

/// our own byte offset -> LSP position
pub fn to_position(text: &str, offset: usize) -> Position {
    let ls = lines(text);
    let li = ls.iter().rposition(|(s, _)| *s <= offset).unwrap_or(0);
    let (s, _) = ls[li];
    Position::new(li as u32, utf16_len(&text[s..offset.min(text.len())]))
}

fn range_of(text: &str, s: usize, e: usize) -> Range {
    Range::new(to_position(text, s), to_position(text, e))
}

fn range_inside(text: &str, r: &Range) -> bool {
    let ls = lines(text);
    for p in [r.start, r.end] {
        let Some((s, e)) = ls.get(p.line as usize) else { return false };
        // the end of a line may be addressed including its line break
        let len = utf16_len(&text[*s..*e]) + if (p.line as usize) + 1 < ls.len() { 1 } else { 0 };
        if p.character > len {
            return false;
        }
    }
    (r.start.line, r.start.character) <= (r.end.line, r.end.character)
}

pub fn gen_position(d: &mut Dice<'_>, text: &str) -> (u32, u32) {
    // half of the positions aim at a word or string (start, inside, end), preferring those that
    // stand behind a non-ASCII character on their line (where byte, UTF-16 and scalar columns differ)
    if d.chance(1, 2) {
        let lex: Vec<_> = textgen::split(text).into_iter().filter(|x| matches!(x.kind, LexKind::Word | LexKind::Str)).collect();
        if !lex.is_empty() {
            let behind: Vec<usize> = (0..lex.len()).filter(|i| {
                let ls = text[..lex[*i].start].rfind('\n').map_or(0, |p| p + 1);
                !text[ls..lex[*i].start].is_ascii()
            }).collect();
            let k = if !behind.is_empty() && d.chance(1, 2) { behind[d.below(behind.len())] } else { d.below(lex.len()) };
            let l = &lex[k];
            let mut off = match d.below(3) {
                0 => l.start,
                1 => l.start + d.below(l.end - l.start),
                _ => l.end,
            };
            while !text.is_char_boundary(off) {
                off -= 1;
            }
            let p = to_position(text, off);
            return (p.line, p.character);
        }
    }
    let ls = lines(text);
    let li = d.below(ls.len());
    let (s, e) = ls[li];
    let line = &text[s..e];
    // legal characters: boundaries between UTF-16 code units that do not split a surrogate pair
    let mut cols = vec![0u32];
    let mut c = 0;
    for ch in line.chars() {
        c += ch.len_utf16() as u32;
        cols.push(c);
    }
    let k = d.below(cols.len() + 3);
    let col = if k < cols.len() { cols[k] } else { c + (k - cols.len()) as u32 + 1 };
    (li as u32, col)
}

pub fn gen_history(stream: &[u32]) -> Vec<Op> {
    let mut d = Dice::new(stream);
    let n = 3 + d.below(23);
    let mut open: BTreeMap<usize, String> = BTreeMap::new();
    let mut ops = vec![];
    for _ in 0..n {
        let k = d.below(12);
        if open.is_empty() || k == 0 {
            let doc = d.below(3);
            let text = gen_text(&mut d, stream);
            if open.contains_key(&doc) {
                ops.push(Op::Change(doc, text.clone()));
            } else {
                ops.push(Op::Open(doc, text.clone()));
            }
            open.insert(doc, text);
            continue;
        }
        let docs: Vec<usize> = open.keys().copied().collect();
        let doc = docs[d.below(docs.len())];
        let text = open[&doc].clone();
        match k {
            1 | 2 => {
                let t = if d.chance(1, 2) { textgen::mutate_text(&text, &mut d) } else { gen_text(&mut d, stream) };
                ops.push(Op::Change(doc, t.clone()));
                open.insert(doc, t);
            }
            3 => {
                ops.push(Op::Close(doc));
                open.remove(&doc);
            }
            4 | 5 => {
                let (l, c) = gen_position(&mut d, &text);
                ops.push(Op::Hover(doc, l, c));
            }
            6 | 7 => {
                let (l, c) = gen_position(&mut d, &text);
                ops.push(Op::Def(doc, l, c));
            }
            8 | 9 => {
                let (l, c) = gen_position(&mut d, &text);
                ops.push(Op::Refs(doc, l, c, d.chance(1, 2)));
            }
            10 => {
                let (l, c) = gen_position(&mut d, &text);
                ops.push(Op::Completion(doc, l, c));
            }
            _ => ops.push(Op::Formatting(doc)),
        }
    }
    ops
}

pub fn uri(doc: usize) -> Url {
    Url::parse(&format!("file:///verif-c20/doc{doc}/g.llw")).unwrap()
}

/// the diagnostics the command line check reports for `text`, as the server must publish them
pub fn expected_diagnostics(text: &str, doc: usize) -> Vec<Value> {
    let (diags, _) = lw::diagnostics(text);
    let mut out = vec![];
    let mut hints = vec![];
    for d in &diags {
        let range = d.labels.first().map(|l| range_of(text, l.start, l.end)).unwrap_or_default();
        let mut message = d.message.clone();
        if let Some(p) = d.labels.iter().find(|l| l.primary && !l.message.is_empty()) {
            message.push(' ');
            message.push_str(&p.message);
        }
        let related: Vec<Value> = d.labels.iter().filter(|l| !l.primary).map(|l| json!({"location": {"uri": uri(doc).as_str(), "range": range_of(text, l.start, l.end)}, "message": l.message})).collect();
        let sev = if d.error { 1 } else { 2 };
        let mut v = json!({"range": range, "severity": sev, "message": message, "relatedInformation": related});
        if let Some(c) = &d.code {
            v["code"] = json!(c);
        }
        for l in d.labels.iter().filter(|l| !l.primary) {
            let mut h = json!({"range": range_of(text, l.start, l.end), "severity": 4, "message": l.message});
            if let Some(c) = &d.code {
                h["code"] = json!(c);
            }
            hints.push(h);
        }
        out.push(v);
    }
    out.extend(hints);
    out
}

fn norm_diag(v: &Value) -> Value {
    // drop null members so that in-process and wire forms compare equal
    match v {
        Value::Object(m) => Value::Object(m.iter().filter(|(_, x)| !x.is_null()).map(|(k, x)| (k.clone(), norm_diag(x))).collect()),
        Value::Array(a) => Value::Array(a.iter().map(norm_diag).collect()),
        x => x.clone(),
    }
}

fn parse_hover_sets(md: &str) -> BTreeMap<String, Vec<String>> {
    let mut m = BTreeMap::new();
    for part in md.split("\n\n") {
        let part = part.rsplit("\n---\n").next().unwrap_or(part);
        if let Some(rest) = part.strip_prefix("**") {
            if let Some((name, set)) = rest.split_once(":** ") {
                let inner = set.trim().trim_start_matches('{').trim_end_matches('}');
                let mut v: Vec<String> = inner.split(", ").filter(|s| !s.is_empty()).map(|s| s.to_string()).collect();
                v.sort();
                m.insert(name.to_string(), v);
            }
        }
    }
    m
}

pub struct Outcome {
    pub responses: Vec<Value>,
    pub nontrivial: bool,
}

/// Execute a history in-process with all oracles.
/// one step of a history against a server state
fn exec_request(cache: &mut Cache, op: &Op) -> Value {
    match op.clone() {
        Op::Open(d, t) | Op::Change(d, t) => {
            cache.invalidate(&uri(d));
            cache.analyze(uri(d), t);
            serde_json::to_value(cache.get_diagnostics(&uri(d))).unwrap()
        }
        Op::Close(d) => {
            cache.invalidate(&uri(d));
            Value::Null
        }
        Op::Hover(d, l, c) => match cache.hover(&uri(d), Position::new(l, c)) {
            Some((msg, range)) => json!({"contents": {"kind": "markdown", "value": msg}, "range": range}),
            None => Value::Null,
        },
        Op::Def(d, l, c) => serde_json::to_value(cache.goto_definition(&uri(d), Position::new(l, c))).unwrap(),
        Op::Refs(d, l, c, w) => serde_json::to_value(cache.references(&uri(d), Position::new(l, c), w)).unwrap(),
        Op::Completion(d, l, c) => serde_json::to_value(cache.completion(CompletionParams {
            text_document_position: TextDocumentPositionParams { text_document: TextDocumentIdentifier { uri: uri(d) }, position: Position::new(l, c) },
            work_done_progress_params: Default::default(),
            partial_result_params: Default::default(),
            context: None,
        }))
        .unwrap(),
        Op::Formatting(d) => serde_json::to_value(cache.formatting(DocumentFormattingParams {
            text_document: TextDocumentIdentifier { uri: uri(d) },
            options: FormattingOptions { tab_size: 2, insert_spaces: true, ..Default::default() },
            work_done_progress_params: Default::default(),
        }))
        .unwrap(),
    }
}

pub fn run_inprocess(ops: &[Op]) -> Result<Outcome, Violation> {
    let mut cache = Cache::default();
    let mut model: BTreeMap<usize, String> = BTreeMap::new();
    let mut responses = vec![];
    let hist = || json!({"history": ops.iter().map(|o| format!("{o:?}")).collect::<Vec<_>>()});
    let mut req_after_change = false;
    let mut changed_docs: Vec<usize> = vec![];
    let mut beyond_eol = false;
    let mut on_syntax_error = false;
    for (step, op) in ops.iter().enumerate() {
        let op2 = op.clone();
        let model_text = |d: usize| model.get(&d).cloned().unwrap_or_default();
        // ---- execute
        let res: Result<Value, String> = {
            let cache_ref = std::panic::AssertUnwindSafe(&mut cache);
            lw::catch(move || {
                let cache = cache_ref;
                let cache: &mut Cache = cache.0;
                exec_request(cache, &op2)
            })
        };
        let kind = format!("{op:?}").split('(').next().unwrap_or("").to_string();
        let val = match res {
            Ok(v) => v,
            Err(p) => {
                let loc = p.split(" at ").last().unwrap_or("").to_string();
                let loc = loc.rsplit('/').next().unwrap_or("").to_string();
                return Err(Violation { sig: format!("panic:{kind}:{loc}"), what: format!("step {step} {op:?} panicked: {p}"), replay: hist() });
            }
        };
        // ---- model update + oracles
        match op {
            Op::Open(d, t) | Op::Change(d, t) => {
                model.insert(*d, t.clone());
                if matches!(op, Op::Change(..)) {
                    changed_docs.push(*d);
                }
                let want = Value::Array(expected_diagnostics(t, *d));
                if norm_diag(&val) != norm_diag(&want) {
                    let (a, b) = (norm_diag(&val), norm_diag(&want));
                    let i = (0..a.as_array().map_or(0, |x| x.len()).max(b.as_array().map_or(0, |x| x.len()))).find(|i| a.get(*i) != b.get(*i)).unwrap_or(0);
                    return Err(Violation {
                        sig: "diagnostics-differ".into(),
                        what: format!("step {step}: published diagnostics differ from the command-line check on the same text; first difference at index {i}: server {} vs expected {}", a.get(i).unwrap_or(&Value::Null), b.get(i).unwrap_or(&Value::Null)),
                        replay: hist(),
                    });
                }
            }
            Op::Close(d) => {
                model.remove(d);
            }
            Op::Hover(d, l, c) | Op::Def(d, l, c) | Op::Refs(d, l, c, _) | Op::Completion(d, l, c) => {
                let text = model_text(*d);
                if changed_docs.contains(d) {
                    req_after_change = true;
                }
                let ls = lines(&text);
                if let Some((s, e)) = ls.get(*l as usize) {
                    if *c >= utf16_len(&text[*s..*e]) {
                        beyond_eol = true;
                    }
                }
                if lw::syntax_diag_count(&text) > 0 {
                    on_syntax_error = true;
                }
                // every range inside the latest text
                let mut ranges = vec![];
                fn collect(v: &Value, out: &mut Vec<Range>, same_doc: &str) {
                    match v {
                        Value::Object(m) => {
                            if let (Some(u), Some(r)) = (m.get("uri"), m.get("range")) {
                                if u.as_str() == Some(same_doc) {
                                    if let Ok(r) = serde_json::from_value::<Range>(r.clone()) {
                                        out.push(r);
                                    }
                                }
                                return;
                            }
                            if let Some(r) = m.get("range") {
                                if let Ok(r) = serde_json::from_value::<Range>(r.clone()) {
                                    out.push(r);
                                }
                            }
                            for (k, x) in m {
                                if k != "range" {
                                    collect(x, out, same_doc);
                                }
                            }
                        }
                        Value::Array(a) => a.iter().for_each(|x| collect(x, out, same_doc)),
                        _ => {}
                    }
                }
                collect(&val, &mut ranges, uri(*d).as_str());
                for r in &ranges {
                    if !range_inside(&text, r) {
                        return Err(Violation { sig: format!("range-outside:{kind}"), what: format!("step {step} {op:?}: returned range {r:?} lies outside the document"), replay: hist() });
                    }
                }
                match op {
                    Op::Hover(..) => {
                        if let Ok(r) = serde_json::from_value::<Range>(val["range"].clone()) {
                            // the hovered range contains the (clamped) request position: computed with our
                            // own UTF-16 conversion, independent of the server's
                            let off = position_to_offset(&text, *l, *c);
                            let (a, b) = (position_to_offset(&text, r.start.line, r.start.character), position_to_offset(&text, r.end.line, r.end.character));
                            // (the server answers for the next token when the position lies in white space)
                            let ws = |x: usize, y: usize| text.get(x..y).is_some_and(|t| t.chars().all(|ch| ch.is_whitespace()));
                            if !(a <= off && off <= b) && !(off < a && ws(off, a)) && !(b < off && ws(b, off)) {
                                return Err(Violation { sig: "hover-range-misses-position".into(), what: format!("step {step} {op:?}: the hover range {r:?} (bytes {a}..{b}) does not contain the request position (byte {off})"), replay: hist() });
                            }
                        }
                        if let Some(md) = val["contents"]["value"].as_str() {
                            if let Ok(r) = serde_json::from_value::<Range>(val["range"].clone()) {
                                // sets of the hovered node according to the semantic pass
                                let t2 = text.clone();
                                if let Ok(run) = lw::catch(move || lw::analyze(&t2)) {
                                    let got = parse_hover_sets(md);
                                    // a hover on the head of a rule declaration covers the declaration and shows the sets of its body
                                    let body_of_decl = run.rule_spans.iter().find(|((s, e), _)| range_of(&text, *s, *e) == r).and_then(|(_, b)| run.sets.get(b));
                                    if let Some(ns) = run.sets.iter().find(|((s, e), _)| range_of(&text, *s, *e) == r).map(|x| x.1).or(body_of_decl) {
                                        let filt = |s: &Option<lw::TokSet>| -> Vec<String> {
                                            let mut v: Vec<String> = s.clone().unwrap_or_default().into_iter().filter(|t| t == "EOF" || !t.starts_with("EOF")).collect();
                                            v.sort();
                                            v
                                        };
                                        for (name, want) in [("First", filt(&ns.first)), ("Follow", filt(&ns.follow)), ("Predict", filt(&ns.predict))] {
                                            if let Some(g) = got.get(name) {
                                                if *g != want {
                                                    return Err(Violation { sig: format!("hover-sets:{name}"), what: format!("step {step} {op:?}: hover shows {name} = {g:?}, the analysis has {want:?}"), replay: hist() });
                                                }
                                            }
                                        }
                                    }
                                }
                            }
                        }
                    }
                    Op::Def(..) => {
                        // completeness: on a text without any diagnostic, a position inside an identifier of a
                        // rule body that names a declared rule has a definition (own splitter, own conversion)
                        if val.is_null() {
                            let t2 = text.clone();
                            let clean = lw::catch(move || lw::diagnostics(&t2)).map(|(d, n)| !d.iter().any(|x| x.error) && n == 0).unwrap_or(false);
                            if clean {
                                let off = position_to_offset(&text, *l, *c);
                                let lex: Vec<_> = textgen::split(&text).into_iter().filter(|x| !matches!(x.kind, LexKind::Ws | LexKind::LineComment | LexKind::DocComment | LexKind::BlockComment)).collect();
                                if let Some(k) = lex.iter().position(|x| x.start <= off && off < x.end && x.kind == LexKind::Word) {
                                    let name = &text[lex[k].start..lex[k].end];
                                    let is_kw = ["token", "start", "right", "skip", "part"].contains(&name);
                                    // declared as a rule: `name :` or `name ^ :` at the top level
                                    let declared_rule = (0..lex.len()).any(|i| {
                                        &text[lex[i].start..lex[i].end] == name
                                            && lex[i].kind == LexKind::Word
                                            && (lex.get(i + 1).is_some_and(|n| &text[n.start..n.end] == ":") || (lex.get(i + 1).is_some_and(|n| &text[n.start..n.end] == "^") && lex.get(i + 2).is_some_and(|n| &text[n.start..n.end] == ":")))
                                    });
                                    // the occurrence itself is a use inside a rule body: some `:` before it and no `;` in between
                                    let in_body = (0..k).rev().find(|i| matches!(&text[lex[*i].start..lex[*i].end], ":" | ";")).is_some_and(|i| &text[lex[i].start..lex[i].end] == ":");
                                    let next_is_colon = lex.get(k + 1).is_some_and(|n| matches!(&text[n.start..n.end], ":" | "^"));
                                    let lower = name.chars().next().is_some_and(|ch| ch.is_ascii_lowercase());
                                    if !is_kw && declared_rule && in_body && !next_is_colon && lower {
                                        return Err(Violation { sig: "definition-missing".into(), what: format!("step {step} {op:?}: the position lies inside the reference `{name}` to a declared rule, but go-to-definition answers null"), replay: hist() });
                                    }
                                }
                            }
                        }
                        if let Ok(Some(loc)) = serde_json::from_value::<Option<Location>>(val.clone()) {
                            if loc.uri == uri(*d) {
                                // the reference under the cursor names what the definition declares
                                let off = position_to_offset(&text, *l, *c);
                                let lex = textgen::split(&text);
                                let at = lex.iter().find(|x| x.start <= off && off < x.end && matches!(x.kind, LexKind::Word | LexKind::Str));
                                let ds = position_to_offset(&text, loc.range.start.line, loc.range.start.character);
                                let de = position_to_offset(&text, loc.range.end.line, loc.range.end.character);
                                if let (Some(at), Some(decl)) = (at, text.get(ds..de)) {
                                    let name = &text[at.start..at.end];
                                    let ok = if at.kind == LexKind::Str {
                                        decl.contains(name)
                                    } else {
                                        textgen::split(decl).iter().any(|x| x.kind == LexKind::Word && &decl[x.start..x.end] == name)
                                    };
                                    if !ok {
                                        return Err(Violation { sig: "definition-mismatch".into(), what: format!("step {step} {op:?}: definition `{decl}` does not declare `{name}`"), replay: hist() });
                                    }
                                    // find-references from the definition must contain this reference
                                    let dpos = loc.range.start;
                                    let cache_ref = std::panic::AssertUnwindSafe(&mut cache);
                                    let dd = *d;
                                    let refs = lw::catch(move || {
                                        let c = cache_ref;
                                        let c: &mut Cache = c.0;
                                        c.references(&uri(dd), dpos, false)
                                    });
                                    match refs {
                                        Err(p) => return Err(Violation { sig: "panic:References".into(), what: format!("references at the definition panicked: {p}"), replay: hist() }),
                                        Ok(rs) => {
                                            let here = range_of(&text, at.start, at.end);
                                            if !rs.iter().any(|r| r.range == here) {
                                                return Err(Violation { sig: "references-miss-reference".into(), what: format!("step {step} {op:?}: references of `{decl}` do not include the reference `{name}` at {here:?}"), replay: hist() });
                                            }
                                        }
                                    }
                                }
                            }
                        }
                    }
                    _ => {}
                }
            }
            Op::Formatting(d) => {
                let text = model_text(*d);
                let t2 = text.clone();
                if let (Ok(want), Some(edits)) = (lw::catch(move || lw::format_text(&t2)), val.as_array()) {
                    if edits.len() != 1 || edits[0]["newText"].as_str() != Some(want.as_str()) {
                        return Err(Violation { sig: "formatting-edit-differs".into(), what: format!("step {step}: formatting edit is not format(text)"), replay: hist() });
                    }
                    if let Ok(r) = serde_json::from_value::<Range>(edits[0]["range"].clone()) {
                        if !range_inside(&text, &r) {
                            return Err(Violation { sig: "range-outside:Formatting".into(), what: format!("step {step}: formatting range {r:?} outside the document"), replay: hist() });
                        }
                        // applying the edit must leave exactly format(text)
                        let (a, b) = (position_to_offset(&text, r.start.line, r.start.character), position_to_offset(&text, r.end.line, r.end.character));
                        if a <= b && b <= text.len() && text.is_char_boundary(a) && text.is_char_boundary(b) {
                            let applied = format!("{}{}{}", &text[..a], want, &text[b..]);
                            if applied != want {
                                return Err(Violation { sig: "formatting-edit-range".into(), what: format!("step {step}: applying the formatting edit (range {r:?}) does not give format(text): {} bytes of the old text survive", a + (text.len() - b)), replay: hist() });
                            }
                        }
                    }
                }
            }
        }
        // ---- the answer must come from the latest text and from nothing else: a fresh server
        // that has only seen this document's latest text gives the same answer (differential
        // against a session without history; catches replies that are stale, shifted or lost)
        if let Op::Hover(d, ..) | Op::Def(d, ..) | Op::Refs(d, ..) | Op::Completion(d, ..) | Op::Formatting(d) = op {
            if let Some(text) = model.get(d).cloned() {
                let op3 = op.clone();
                let dd = *d;
                let fresh = lw::catch(move || {
                    let mut c = Cache::default();
                    c.analyze(uri(dd), text);
                    let v = exec_request(&mut c, &op3);
                    c.invalidate(&uri(dd));
                    v
                });
                match fresh {
                    Ok(want) => {
                        if want != val {
                            let show = |v: &Value| {
                                let s = v.to_string();
                                s.chars().take(300).collect::<String>()
                            };
                            return Err(Violation {
                                sig: format!("session-differs-from-fresh:{kind}"),
                                what: format!("step {step} {op:?}: the session answers {} but a fresh server that has only seen the latest text answers {}", show(&val), show(&want)),
                                replay: hist(),
                            });
                        }
                    }
                    Err(p) => {
                        let loc = p.split(" at ").last().unwrap_or("").rsplit('/').next().unwrap_or("").to_string();
                        return Err(Violation { sig: format!("panic:{kind}:{loc}"), what: format!("step {step} {op:?} panicked in a fresh server: {p}"), replay: hist() });
                    }
                }
            }
        }
        responses.push(val);
        // ---- liveness probe on every open document
        for d in model.keys().copied().collect::<Vec<_>>() {
            let cache_ref = std::panic::AssertUnwindSafe(&mut cache);
            let alive = lw::catch(move || {
                let c = cache_ref;
                let c: &mut Cache = c.0;
                c.get_diagnostics(&uri(d)).len()
            });
            if let Err(p) = alive {
                // the panic that killed the analyzer thread happened in another thread, silently
                let cause = lw::PANIC_HISTORY.lock().ok().and_then(|h| h.iter().rev().find(|(_, m)| !m.contains("is_finished") && m.contains(&format!("{}/", crate::ev::repo().display()))).map(|(_, m)| m.clone())).unwrap_or_default();
                let loc = cause.split(" at ").last().unwrap_or("").rsplit('/').next().unwrap_or("").to_string();
                return Err(Violation {
                    sig: format!("analyzer-died:{kind}:{loc}"),
                    what: format!("after step {step} {op:?} the analyzer of document {d} is dead (a later request would crash the server): {p}; cause: {cause}"),
                    replay: hist(),
                });
            }
        }
    }
    // shut the analyzers down
    for d in model.keys().copied().collect::<Vec<_>>() {
        let cache_ref = std::panic::AssertUnwindSafe(&mut cache);
        let _ = lw::catch(move || {
            let c = cache_ref;
            c.0.invalidate(&uri(d));
        });
    }
    Ok(Outcome { responses, nontrivial: req_after_change && beyond_eol && on_syntax_error })
}

/// LSP position -> byte offset (clamped), for our own bookkeeping
pub fn position_to_offset(text: &str, line: u32, ch: u32) -> usize {
    let ls = lines(text);
    let Some((s, e)) = ls.get(line as usize) else { return text.len() };
    let mut c = 0;
    for (i, chr) in text[*s..*e].char_indices() {
        if c >= ch {
            return s + i;
        }
        c += chr.len_utf16() as u32;
    }
    *e
}

// ------------------------------------------------------------------ stdio replay

fn frame(v: &Value) -> Vec<u8> {
    let body = serde_json::to_vec(v).unwrap();
    let mut out = format!("Content-Length: {}\r\n\r\n", body.len()).into_bytes();
    out.extend(body);
    out
}

fn read_msg(r: &mut BufReader<std::process::ChildStdout>) -> Option<Value> {
    let mut len = 0usize;
    loop {
        let mut line = String::new();
        if r.read_line(&mut line).ok()? == 0 {
            return None;
        }
        let l = line.trim_end();
        if l.is_empty() {
            break;
        }
        if let Some(v) = l.strip_prefix("Content-Length: ") {
            len = v.parse().ok()?;
        }
    }
    let mut buf = vec![0u8; len];
    r.read_exact(&mut buf).ok()?;
    serde_json::from_slice(&buf).ok()
}

pub fn ls_path() -> std::path::PathBuf {
    ev::root().join("engine/target/repo-bins/debug/lelwel-ls")
}

/// Replay over stdio; `expected` are the in-process answers. Returns Err on a violation,
/// Ok(false) if inconclusive (missing response once).
pub fn run_stdio(ops: &[Op], expected: &[Value], pacing: &mut Dice<'_>) -> Result<bool, Violation> {
    let hist = || json!({"history": ops.iter().map(|o| format!("{o:?}")).collect::<Vec<_>>(), "transport": "stdio"});
    let mut child = Command::new(ls_path()).stdin(Stdio::piped()).stdout(Stdio::piped()).stderr(Stdio::null()).spawn().expect("cannot start lelwel-ls");
    let mut stdin = child.stdin.take().unwrap();
    let stdout = child.stdout.take().unwrap();
    // reader thread: collects all messages
    let (tx, rx) = std::sync::mpsc::channel::<Value>();
    let reader = std::thread::spawn(move || {
        let mut r = BufReader::new(stdout);
        while let Some(m) = read_msg(&mut r) {
            if tx.send(m).is_err() {
                break;
            }
        }
    });
    let send = |v: Value, stdin: &mut std::process::ChildStdin, pacing: &mut Dice<'_>| -> bool {
        let bytes = frame(&v);
        match pacing.below(4) {
            0 => {
                // split write
                let k = pacing.below(bytes.len().max(1));
                stdin.write_all(&bytes[..k]).is_ok() && stdin.flush().is_ok() && {
                    std::thread::sleep(std::time::Duration::from_millis(pacing.below(5) as u64));
                    stdin.write_all(&bytes[k..]).is_ok() && stdin.flush().is_ok()
                }
            }
            1 => {
                std::thread::sleep(std::time::Duration::from_millis(pacing.below(20) as u64));
                stdin.write_all(&bytes).is_ok() && stdin.flush().is_ok()
            }
            _ => stdin.write_all(&bytes).is_ok() && stdin.flush().is_ok(),
        }
    };
    let wait = |rx: &std::sync::mpsc::Receiver<Value>, pred: &dyn Fn(&Value) -> bool| -> Option<Value> {
        let deadline = std::time::Instant::now() + std::time::Duration::from_secs(20);
        loop {
            let left = deadline.saturating_duration_since(std::time::Instant::now());
            match rx.recv_timeout(left) {
                Ok(m) => {
                    if pred(&m) {
                        return Some(m);
                    }
                }
                Err(_) => return None,
            }
        }
    };
    let died = |what: &str, child: &mut std::process::Child| -> Violation {
        let st = child.try_wait().ok().flatten();
        Violation { sig: format!("server-{}", if st.is_some() { "died" } else { "no-response" }), what: format!("{what} (server exit status: {st:?})"), replay: hist() }
    };
    send(json!({"jsonrpc": "2.0", "id": 0, "method": "initialize", "params": {"processId": null, "rootUri": null, "capabilities": {}}}), &mut stdin, pacing);
    if wait(&rx, &|m| m["id"] == json!(0)).is_none() {
        let v = died("no response to initialize", &mut child);
        let _ = child.kill();
        return Err(v);
    }
    send(json!({"jsonrpc": "2.0", "method": "initialized", "params": {}}), &mut stdin, pacing);
    let mut next_id = 1;
    let mut versions: BTreeMap<usize, i32> = BTreeMap::new();
    for (step, (op, want)) in ops.iter().zip(expected).enumerate() {
        let tdp = |d: usize, l: u32, c: u32| json!({"textDocument": {"uri": uri(d).as_str()}, "position": {"line": l, "character": c}});
        let (msg, is_req, doc) = match op {
            Op::Open(d, t) => (json!({"jsonrpc": "2.0", "method": "textDocument/didOpen", "params": {"textDocument": {"uri": uri(*d).as_str(), "languageId": "lelwel", "version": 1, "text": t}}}), false, *d),
            Op::Change(d, t) => {
                let v = versions.entry(*d).or_insert(1);
                *v += 1;
                (json!({"jsonrpc": "2.0", "method": "textDocument/didChange", "params": {"textDocument": {"uri": uri(*d).as_str(), "version": *v}, "contentChanges": [{"text": t}]}}), false, *d)
            }
            Op::Close(d) => (json!({"jsonrpc": "2.0", "method": "textDocument/didClose", "params": {"textDocument": {"uri": uri(*d).as_str()}}}), false, *d),
            Op::Hover(d, l, c) => (json!({"jsonrpc": "2.0", "id": next_id, "method": "textDocument/hover", "params": tdp(*d, *l, *c)}), true, *d),
            Op::Def(d, l, c) => (json!({"jsonrpc": "2.0", "id": next_id, "method": "textDocument/definition", "params": tdp(*d, *l, *c)}), true, *d),
            Op::Refs(d, l, c, w) => {
                let mut p = tdp(*d, *l, *c);
                p["context"] = json!({"includeDeclaration": w});
                (json!({"jsonrpc": "2.0", "id": next_id, "method": "textDocument/references", "params": p}), true, *d)
            }
            Op::Completion(d, l, c) => (json!({"jsonrpc": "2.0", "id": next_id, "method": "textDocument/completion", "params": tdp(*d, *l, *c)}), true, *d),
            Op::Formatting(d) => (json!({"jsonrpc": "2.0", "id": next_id, "method": "textDocument/formatting", "params": {"textDocument": {"uri": uri(*d).as_str()}, "options": {"tabSize": 2, "insertSpaces": true}}}), true, *d),
        };
        if !send(msg, &mut stdin, pacing) {
            let v = died(&format!("step {step} {op:?}: cannot write to the server"), &mut child);
            let _ = child.kill();
            return Err(v);
        }
        if is_req {
            let id = next_id;
            next_id += 1;
            let Some(resp) = wait(&rx, &|m| m["id"] == json!(id)) else {
                let v = died(&format!("step {step} {op:?}: no response"), &mut child);
                let _ = child.kill();
                return Err(v);
            };
            let got = resp.get("result").cloned().unwrap_or(Value::Null);
            if norm_diag(&got) != norm_diag(want) {
                let _ = child.kill();
                return Err(Violation { sig: format!("stdio-differs:{}", format!("{op:?}").split('(').next().unwrap_or("")), what: format!("step {step} {op:?}: server answers {got}, in-process answer is {want}"), replay: hist() });
            }
        } else if matches!(op, Op::Open(..) | Op::Change(..)) {
            let u = uri(doc).to_string();
            let Some(n) = wait(&rx, &|m| m["method"] == json!("textDocument/publishDiagnostics") && m["params"]["uri"] == json!(u)) else {
                let v = died(&format!("step {step} {op:?}: no diagnostics published"), &mut child);
                let _ = child.kill();
                return Err(v);
            };
            if norm_diag(&n["params"]["diagnostics"]) != norm_diag(want) {
                let _ = child.kill();
                return Err(Violation { sig: "stdio-differs:diagnostics".into(), what: format!("step {step}: diagnostics published over stdio differ from the in-process ones"), replay: hist() });
            }
        }
    }
    send(json!({"jsonrpc": "2.0", "id": next_id, "method": "shutdown", "params": null}), &mut stdin, pacing);
    let ok = wait(&rx, &|m| m["id"] == json!(next_id)).is_some();
    send(json!({"jsonrpc": "2.0", "method": "exit", "params": null}), &mut stdin, pacing);
    drop(stdin);
    let deadline = std::time::Instant::now() + std::time::Duration::from_secs(10);
    let mut status = None;
    while std::time::Instant::now() < deadline {
        if let Ok(Some(s)) = child.try_wait() {
            status = Some(s);
            break;
        }
        std::thread::sleep(std::time::Duration::from_millis(10));
    }
    let _ = child.kill();
    let _ = reader.join();
    if !ok {
        return Err(Violation { sig: "server-no-shutdown-response".into(), what: "no response to shutdown".into(), replay: hist() });
    }
    match status {
        Some(s) if s.code() == Some(0) => Ok(true),
        other => Err(Violation { sig: "server-exit-status".into(), what: format!("server did not exit cleanly after shutdown/exit: {other:?}"), replay: hist() }),
    }
}

pub fn run(ctx: &Ctx) -> i32 {
    let mut ev = Evidence::new("C20", ctx.tier, ctx.seed, RULE);
    let mut rep = Report::new("C20");
    // saved reproductions: the history is regenerated from its choice stream and run in-process
    // and over stdio
    let files = match &ctx.replay {
        Some(p) => vec![p.clone()],
        None => super::replay_files("C20"),
    };
    for f in &files {
        let Ok(s) = std::fs::read_to_string(f) else { continue };
        let Ok(v) = serde_json::from_str::<Value>(&s) else { continue };
        let Some(stream) = v["replay"]["stream"].as_array() else { continue };
        let stream: Vec<u32> = stream.iter().filter_map(|x| x.as_u64().map(|x| x as u32)).collect();
        let ops = gen_history(&stream);
        ev.eval();
        ev.label("replayed");
        match run_inprocess(&ops) {
            Err(mut v) => {
                v.replay["stream"] = json!(stream);
                rep.violation(v)
            }
            Ok(o) => {
                let tail: Vec<u32> = stream.iter().rev().take(100).copied().collect();
                let mut pacing = Dice::new(&tail);
                if let Err(mut v) = run_stdio(&ops, &o.responses, &mut pacing) {
                    v.replay["stream"] = json!(stream);
                    rep.violation(v);
                }
            }
        }
    }
    if ctx.replay.is_some() {
        let code = rep.finish(&mut ev);
        ev.write();
        return code;
    }
    let cases = ctx.tier.pick(12_000u32, 150_000u32);
    let stdio_every = ctx.tier.pick(12usize, 20usize);
    let counter = std::sync::atomic::AtomicUsize::new(0);
    let out = prop::run_prop("C20", ctx.tier, ctx.seed, "histories", cases, ctx.threads, 700, |stream, ev| {
        let ops = gen_history(stream);
        ev.eval();
        ev.label_n("steps", ops.len() as u64);
        // a failing history is saved together with its choice stream (that is what --replay reads)
        let o = run_inprocess(&ops).map_err(|mut v| {
            v.replay["stream"] = json!(stream);
            v
        })?;
        if o.nontrivial {
            ev.nontrivial(&format!("{ops:?}"));
        }
        if ev.samples.len() < 2 && ev.evaluations % 97 == 5 {
            ev.sample(json!({"history": ops.iter().map(|o| { let s = format!("{o:?}"); s.chars().take(160).collect::<String>() }).collect::<Vec<_>>()}));
        }
        let k = counter.fetch_add(1, std::sync::atomic::Ordering::Relaxed);
        if k % stdio_every == 0 {
            ev.label("stdio_replays");
            let tail: Vec<u32> = stream.iter().rev().take(100).copied().collect();
            let mut pacing = Dice::new(&tail);
            let with_stream = |mut v: Violation| {
                v.replay["stream"] = json!(stream);
                v
            };
            match run_stdio(&ops, &o.responses, &mut pacing) {
                Ok(_) => {}
                Err(v) if v.sig == "server-no-response" => {
                    // retry once in a fresh server before it counts
                    let mut pacing = Dice::new(&tail);
                    run_stdio(&ops, &o.responses, &mut pacing).map(|_| ()).map_err(with_stream)?;
                }
                Err(v) => return Err(with_stream(v)),
            }
        }
        Ok(())
    });
    ev.merge(out.ev);
    for v in out.violations.into_iter().chain(out.known_hits) {
        rep.violation(v);
    }
    crate::fuzzstage::maybe(ctx, "C20", &mut ev, &mut rep);
    let code = rep.finish(&mut ev);
    ev.write();
    code
}
