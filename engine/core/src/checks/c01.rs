//! C01 (lossless tree), C02 part (a) (well-formed tree, created callbacks), C03 (totality):
//! three judges over the same domain and inputs.

use super::Ctx;
use crate::dice::Dice;
use crate::ev::{Evidence, Tier};
use crate::ggen::Profile;
use crate::gm::*;
use crate::inputs::{self, Sampler};
use crate::lab::{Reply, Req, Status};
use crate::labrun::{self, GInfo, LabProp, Verdict};
use crate::tree;

pub fn sig_of(class: &str, msg: &str) -> String {
    let s: String = msg.chars().map(|c| if c.is_ascii_digit() { '#' } else { c }).collect();
    let s = s.replace("##", "#").replace("##", "#");
    format!("{class}:{}", s.chars().take(40).collect::<String>())
}

/// Failures on grammars in which a node creation crosses an open marker or leaves an undoable
/// attempt all share one root cause and one signature (a listed finding).
pub fn crossing_sig(g: &Grammar, sig: String, msg: String) -> (String, String) {
    let shapes = crossing_shapes(g);
    if shapes.is_empty() { (sig, msg) } else { ("crossing-creation".to_string(), format!("{msg} [grammar has a crossing node creation: {}]", shapes[0])) }
}

pub fn all_profiles() -> Vec<Profile> {
    vec![
        Profile::ebnf(),
        Profile { pratt: true, nodeops: true, parts: true, skips: true, ..Profile::base("pratt-nodeops") },
        Profile { choice: true, nodeops: true, asserts: true, skips: true, ..Profile::base("choice-nodeops") },
        Profile { preds: true, pred_t: true, actions: true, returns: true, leading_return: true, skips: true, parts: true, nodeops: true, ..Profile::base("preds-actions") },
        Profile { max_rules: 7, ..Profile::full() },
        Profile { crossing: true, nodeops: true, choice: true, skips: true, parts: true, ..Profile::base("crossing-creations") },
        Profile { choice: true, choice_weight: 10, skips: true, max_rules: 4, depth: 2, max_tokens: 3, shuffle_decls: true, ..Profile::base("choice-dense") },
    ]
}

pub fn status_sig(st: &Status) -> String {
    match st {
        Status::Ok => "ok".into(),
        Status::Panic(m) => sig_of("panic", m.split(" at ").last().unwrap_or(m)),
        Status::TreePanic(m) => sig_of("tree-panic", m.split(" at ").last().unwrap_or(m)),
        Status::Fuel => "fuel".into(),
        Status::Depth => "depth".into(),
        Status::Died => "died".into(),
    }
}

/// the standard request mix over all entry points
pub fn standard_requests(g: &Grammar, gi: usize, d: &mut Dice<'_>, per_entry: usize, max_len: usize) -> Vec<Req> {
    let s = Sampler::new(g);
    let mut out = vec![];
    let has_pred = g.any_regex(&|r| matches!(r, Regex::Pred(Some(_))));
    let has_assert = g.any_regex(&|r| matches!(r, Regex::Assert(_)));
    for entry in 0..=g.parts.len() {
        let rule = if entry == 0 { g.start } else { g.parts[entry - 1] };
        let n = if entry == 0 { per_entry } else { per_entry / 2 };
        let t0 = std::time::Instant::now();
        let ins = inputs::standard_inputs(g, &s, rule, d, n, max_len);
        if t0.elapsed().as_secs() >= 3 && std::env::var("VERIF_DEBUG").is_ok() {
            eprintln!("slow input generation ({:?}) for rule {} of\n{}", t0.elapsed(), rule, print(g).text);
        }
        for (i, toks) in ins.into_iter().enumerate() {
            let mut r = Req::new(gi, toks);
            r.entry = entry;
            r.enc = (i % 2) as u8;
            r.seed = 1 + d.below(1000) as u64;
            r.pmode = if has_pred { [0, 0, 1, 2][i % 4] } else { 0 };
            r.amode = if has_assert { [0, 1, 0, 1][(i / 2) % 4] } else { 0 };
            r.smode = if i % 13 == 12 { 1 } else { 0 };
            out.push(r);
        }
    }
    out
}

pub struct P01;
pub struct P02;
pub struct P03;

const RULE01: &str = "grammars from choice streams (profiles ebnf, pratt+nodeops, choice+nodeops+assertions, predicates+actions+returns, full) and the repository's own grammars; inputs per entry point (start and every part): sampled sentences, their prefixes, single/double edit mutants, random strings, runs of one token, trivia and lexer Error tokens sprinkled in any gap, empty input; both token encodings (width 1 and widths 1-3). Oracle: leaves of the DFS walk through children() == input tokens (kind, index, span) in order, same through the flat vector, concatenated leaf texts == source. non-trivial = input with a diagnostic or a skipped/Error token on a grammar with marker/creation, conditional elision, Pratt rule or ordered choice; distinct = (grammar text, token string, modes)";

fn nontrivial_c01(g: &Grammar, req: &Req, rep: &Reply) -> bool {
    let rich = g.is_pratt_any() || g.any_regex(&|r| matches!(r, Regex::Marker(_) | Regex::Create(..) | Regex::Elide | Regex::Choice(_)));
    let trivia = req.tokens.iter().any(|t| *t == crate::lab::ERROR_KIND || g.skip.contains(t));
    rich && (!rep.diags.is_empty() || trivia)
}

impl LabProp for P01 {
    fn id(&self) -> &'static str {
        "C01"
    }
    fn rule(&self) -> &'static str {
        RULE01
    }
    fn profiles(&self, _t: Tier) -> Vec<Profile> {
        all_profiles()
    }
    fn n_grammars(&self, t: Tier) -> usize {
        t.pick(96, 1200)
    }
    fn extra_grammars(&self, _t: Tier) -> Vec<(Grammar, &'static str)> {
        super::real_grammars()
    }
    fn requests(&self, g: &Grammar, _i: &GInfo, gi: usize, d: &mut Dice<'_>, t: Tier) -> Vec<Req> {
        standard_requests(g, gi, d, t.pick(120, 300), t.pick(24, 64))
    }
    fn judge(&self, g: &Grammar, _i: &GInfo, req: &Req, rep: &Reply, _m: &mut dyn FnMut(&Req) -> Reply, ev: &mut Evidence) -> Verdict {
        if let Status::TreePanic(m) = &rep.status {
            return Err(crossing_sig(g, sig_of("tree-unreadable", m.split(" at ").last().unwrap_or(m)), format!("walking the returned tree panics: {m}")));
        }
        if rep.status != Status::Ok {
            ev.exclude("parse did not return (C03 matter)");
            return Ok(());
        }
        if nontrivial_c01(g, req, rep) {
            ev.nontrivial(&format!("{:?}{:?}", g, req));
        }
        tree::check_lossless(g, req, rep).map_err(|m| crossing_sig(g, sig_of("lossless", &m), m))
    }
}

const RULE02: &str = "part (a): same grammars and inputs as C01. Oracle: validity predicate over the reply - root extent is the whole vector, every rule node's extent inside its parent's, children() partitions the extent exactly as the offsets imply (tree rebuilt from offsets == tree read through children()/span()), rule span = first-leaf start..last-leaf end, empty node span = end of preceding token, child spans nested and ordered, no non-root rule node starts or ends with a skipped/Error token; created-callback audit: announced node is a closed rule node of the announced kind and its subtree at that instant occurs unchanged in the final tree unless a deleted announcement followed. part (b): well-nested builder histories against a reference tree model (see coverage.histories). non-trivial (a) = reply contains an empty rule node, a node inserted by a creation operator, or an error node next to trivia; distinct = (grammar, input, modes)";

fn nontrivial_c02(g: &Grammar, _req: &Req, rep: &Reply) -> bool {
    let Some(t) = &rep.tree else { return false };
    let mut hit = false;
    let skip_names: Vec<&str> = g.skip.iter().map(|t| g.tokens[*t].name.as_str()).collect();
    t.walk(&mut |n| {
        if let crate::lab::TNode::Rule { ch, kind, .. } = n {
            if ch.is_empty() {
                hit = true;
            }
            if kind == "error" {
                hit = true;
            }
            for w in ch.windows(2) {
                let is_triv = |x: &crate::lab::TNode| matches!(x, crate::lab::TNode::Tok { kind, .. } if kind == "Error" || skip_names.contains(&kind.as_str()));
                let is_err = |x: &crate::lab::TNode| matches!(x, crate::lab::TNode::Rule { kind, .. } if kind == "error");
                if (is_triv(&w[0]) && is_err(&w[1])) || (is_err(&w[0]) && is_triv(&w[1])) {
                    hit = true;
                }
            }
        }
    });
    hit && g.any_regex(&|r| matches!(r, Regex::Create(..) | Regex::Elide | Regex::Marker(_))) || hit && !rep.diags.is_empty()
}

impl LabProp for P02 {
    fn id(&self) -> &'static str {
        "C02"
    }
    fn rule(&self) -> &'static str {
        RULE02
    }
    fn profiles(&self, _t: Tier) -> Vec<Profile> {
        all_profiles()
    }
    fn n_grammars(&self, t: Tier) -> usize {
        t.pick(96, 1200)
    }
    fn extra_grammars(&self, _t: Tier) -> Vec<(Grammar, &'static str)> {
        super::real_grammars()
    }
    fn requests(&self, g: &Grammar, _i: &GInfo, gi: usize, d: &mut Dice<'_>, t: Tier) -> Vec<Req> {
        standard_requests(g, gi, d, t.pick(120, 300), t.pick(24, 64))
    }
    fn judge(&self, g: &Grammar, _i: &GInfo, req: &Req, rep: &Reply, _m: &mut dyn FnMut(&Req) -> Reply, ev: &mut Evidence) -> Verdict {
        if let Status::TreePanic(m) = &rep.status {
            return Err(crossing_sig(g, sig_of("tree-unreadable", m.split(" at ").last().unwrap_or(m)), format!("walking the returned tree panics: {m}")));
        }
        if rep.status != Status::Ok {
            ev.exclude("parse did not return (C03 matter)");
            return Ok(());
        }
        if nontrivial_c02(g, req, rep) {
            ev.nontrivial(&format!("{:?}{:?}", g, req));
        }
        tree::check_wellformed(g, req, rep).map_err(|m| crossing_sig(g, sig_of("shape", &m), m))?;
        let (c, d) = tree::check_callbacks(rep, !g.any_regex(&|r| matches!(r, Regex::Choice(_)))).map_err(|m| crossing_sig(g, sig_of("callback", &m), m))?;
        ev.label_n("created_announcements", c as u64);
        ev.label_n("deleted_announcements", d as u64);
        Ok(())
    }
}

const RULE03: &str = "accepted grammars in which every rule is productive (same profiles as C01 plus repository grammars); inputs biased to what makes parsers hang: every kind of prefix of sentences, mutants, long runs of one token, random strings, trivia-only and Error-only inputs, predicates with arbitrary/true/false outcomes, all entry points. The run copy of the emitted parser is instrumented textually (fuel tick in every `loop {`, depth guard in every rule function). Oracle: the parse returns - no panic (index, overflow, debug assertion), fuel (10^6 loop iterations) and depth (20000 frames) not exceeded, runner not killed. non-trivial = non-sentence input (>= 1 diagnostic) ending or erring inside a repetition/option at nesting >= 2 (approximated: grammar has nested loops and the reply has an error node or diagnostic); distinct = (grammar, input, modes)";

impl LabProp for P03 {
    fn id(&self) -> &'static str {
        "C03"
    }
    fn rule(&self) -> &'static str {
        RULE03
    }
    fn profiles(&self, _t: Tier) -> Vec<Profile> {
        all_profiles()
    }
    fn n_grammars(&self, t: Tier) -> usize {
        t.pick(96, 1200)
    }
    fn extra_grammars(&self, _t: Tier) -> Vec<(Grammar, &'static str)> {
        super::real_grammars()
    }
    fn domain(&self, _g: &Grammar, info: &GInfo) -> Result<(), &'static str> {
        if info.productive.iter().all(|p| *p) { Ok(()) } else { Err("a rule is unproductive") }
    }
    fn requests(&self, g: &Grammar, _i: &GInfo, gi: usize, d: &mut Dice<'_>, t: Tier) -> Vec<Req> {
        let mut v = standard_requests(g, gi, d, t.pick(110, 280), t.pick(24, 64));
        // long runs and trivia-only inputs
        let alpha = inputs::plain_alphabet(g);
        for entry in 0..=g.parts.len() {
            for t in alpha.iter().take(4) {
                let mut r = Req::new(gi, vec![*t; 200 + d.below(200)]);
                r.entry = entry;
                r.pmode = 1;
                v.push(r);
            }
            let mut r = Req::new(gi, vec![crate::lab::ERROR_KIND; 5]);
            r.entry = entry;
            v.push(r);
            if !g.skip.is_empty() {
                let mut r = Req::new(gi, vec![g.skip[0]; 7]);
                r.entry = entry;
                v.push(r);
            }
        }
        v
    }
    fn judge(&self, g: &Grammar, _i: &GInfo, req: &Req, rep: &Reply, _m: &mut dyn FnMut(&Req) -> Reply, ev: &mut Evidence) -> Verdict {
        let nested = g.any_regex(&|r| matches!(r, Regex::Star(b) | Regex::Plus(b) | Regex::Opt(b) if b.any(&|x| matches!(x, Regex::Star(_) | Regex::Plus(_) | Regex::Opt(_) | Regex::Ref(_)))));
        if nested && (!rep.diags.is_empty() || rep.status != Status::Ok) {
            ev.nontrivial(&format!("{:?}{:?}", g, req));
        }
        ev.label_n("max_ticks_seen", 0);
        let e = ev.extra.entry("max_ticks".to_string()).or_insert(serde_json::json!(0));
        if rep.ticks > e.as_u64().unwrap_or(0) {
            *e = serde_json::json!(rep.ticks);
        }
        let e = ev.extra.entry("max_depth".to_string()).or_insert(serde_json::json!(0));
        if rep.depth > e.as_u64().unwrap_or(0) {
            *e = serde_json::json!(rep.depth);
        }
        match &rep.status {
            Status::Ok => Ok(()),
            Status::TreePanic(_) => {
                ev.exclude("tree unreadable (C01/C02 matter)");
                Ok(())
            }
            Status::Fuel if !leading_returns(g).is_empty() => {
                // one listed finding: a `&` before the first token of a rule, called from a repetition
                Err(("leading-return-spin".into(), format!("parse does not return (fuel exhausted after {} loop iterations) [grammar has a leading return operator: {}]", rep.ticks, leading_returns(g)[0])))
            }
            st => Err(crossing_sig(g, status_sig(st), format!("parse did not return normally: {st:?} (ticks {}, depth {})", rep.ticks, rep.depth))),
        }
    }
}

pub fn run01(ctx: &Ctx) -> i32 {
    labrun::main_lab(&P01, ctx)
}
pub fn run02(ctx: &Ctx) -> i32 {
    let (tier, seed, threads) = (ctx.tier, ctx.seed, ctx.threads);
    labrun::main_lab_with(&P02, ctx, &mut |ev, rep| {
        let ok = super::c02b::run_histories(tier, seed, threads, ev, rep);
        ev.set("histories_stage", serde_json::json!(if ok { "ran" } else { "harness not built" }));
    })
}
pub fn run03(ctx: &Ctx) -> i32 {
    labrun::main_lab(&P03, ctx)
}
