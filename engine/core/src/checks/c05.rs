//! C05 — for sentences the tree is the derivation tree with node operators applied.

use super::Ctx;
use super::c01::sig_of;
use crate::dice::Dice;
use crate::ev::{Evidence, Tier};
use crate::ggen::Profile;
use crate::gm::*;
use crate::inputs::{self, Sampler};
use crate::interp::{self, Interp, Outcome};
use crate::lab::{Event, Reply, Req, Status};
use crate::labrun::{self, GInfo, LabProp, Verdict};

pub struct P05;

const RULE: &str = "accepted grammars (profiles ebnf+nodeops+actions, pratt+nodeops, nodeops with rule-level elision and unindexed creation, parts, skip; no rule with an empty body, no ?n, no assertion, no ordered choice) x sentences only (sampled from the grammar model, confirmed by the Earley recogniser), with trivia variants, every entry point. Oracle: reference interpreter that chooses with reference predict sets and builds node-per-rule-application / rename / elision / marker-creation trees and judges operator rules by textbook precedence climbing: reply tree with skipped tokens removed == interpreter tree (kinds, child order, token leaves by index); action log == interpreter's action list; zero diagnostics. non-trivial = sentence of >= 2 tokens whose grammar uses >= 2 distinct kinds of node operators; distinct = (grammar, sentence, entry)";

pub fn node_op_kinds(g: &Grammar) -> usize {
    let mut n = 0;
    for p in [
        (&|r: &Regex| matches!(r, Regex::Rename(_))) as &dyn Fn(&Regex) -> bool,
        &|r: &Regex| matches!(r, Regex::Elide),
        &|r: &Regex| matches!(r, Regex::Create(Some(_), _)),
        &|r: &Regex| matches!(r, Regex::Create(None, _)),
        &|r: &Regex| matches!(r, Regex::Action(_)),
    ] {
        if g.any_regex(p) {
            n += 1;
        }
    }
    if g.rules.iter().any(|r| r.elided) {
        n += 1;
    }
    n
}

pub fn sentence_requests(g: &Grammar, info: &GInfo, gi: usize, d: &mut Dice<'_>, per_entry: usize, max_len: usize) -> Vec<Req> {
    let s = Sampler::new(g);
    let mut out = vec![];
    for entry in 0..=g.parts.len() {
        let rule = if entry == 0 { g.start } else { g.parts[entry - 1] };
        let mut seen = std::collections::BTreeSet::new();
        let mut tries = 0;
        while seen.len() < per_entry && tries < per_entry * 4 {
            tries += 1;
            let depth = 1 + d.below(7);
            let sen = s.sentence(rule, d, depth, max_len);
            if sen.len() > max_len * 2 || !info.earley[entry].recognize(&sen).0 {
                continue;
            }
            if !seen.insert(sen.clone()) {
                continue;
            }
            let variant = d.below(3);
            let toks = if variant == 0 || g.skip.is_empty() { sen } else { inputs::sprinkle(&sen, g, d, variant as u32, variant == 2) };
            let mut r = Req::new(gi, toks);
            r.entry = entry;
            r.enc = (tries % 2) as u8;
            out.push(r);
        }
    }
    out
}

pub fn compare_accept(g: &Grammar, rep: &Reply, tree: &interp::ITree, actions: &[(String, u32)]) -> Result<(), (String, String)> {
    let Some(t) = &rep.tree else { return Err(("no-tree".into(), "no tree".into())) };
    let got = interp::strip_reply_tree(g, t);
    if &got != tree {
        return Err((sig_of("tree", &first_diff(g, &got, tree)), format!("tree differs from the derivation tree: parser built {} but the grammar prescribes {}", got.dump(g), tree.dump(g))));
    }
    let acts: Vec<(String, u32)> = rep.log.iter().filter_map(|e| if let Event::Action(r, n, _, _) = e { Some((r.clone(), *n as u32)) } else { None }).collect();
    if acts != actions {
        return Err(("actions".into(), format!("semantic actions fired {:?}, derivation order is {:?}", acts, actions)));
    }
    Ok(())
}

fn first_diff(g: &Grammar, a: &interp::ITree, b: &interp::ITree) -> String {
    use interp::ITree::*;
    match (a, b) {
        (Node(ka, ca), Node(kb, cb)) => {
            if ka != kb {
                return format!("kind {ka} vs {kb}");
            }
            if ca.len() != cb.len() {
                return format!("{ka}: child count");
            }
            for (x, y) in ca.iter().zip(cb) {
                if x != y {
                    return first_diff(g, x, y);
                }
            }
            String::new()
        }
        (Tok(..), Node(..)) => "token where node expected".into(),
        (Node(..), Tok(..)) => "node where token expected".into(),
        _ => "token mismatch".into(),
    }
}

impl LabProp for P05 {
    fn id(&self) -> &'static str {
        "C05"
    }
    fn rule(&self) -> &'static str {
        RULE
    }
    fn profiles(&self, _t: Tier) -> Vec<Profile> {
        vec![
            Profile { nodeops: true, actions: true, parts: true, skips: true, ..Profile::base("nodeops-actions") },
            Profile { nodeops: true, pratt: true, pred_t: true, parts: true, skips: true, ..Profile::base("pratt-nodeops") },
            Profile { nodeops: true, actions: true, max_rules: 8, depth: 4, shuffle_decls: true, skips: true, ..Profile::base("nodeops-deep") },
            Profile { pratt: true, max_rules: 3, depth: 2, nodeops: true, ..Profile::base("pratt-small") },
        ]
    }
    fn n_grammars(&self, t: Tier) -> usize {
        t.pick(110, 1500)
    }
    fn extra_grammars(&self, _t: Tier) -> Vec<(Grammar, &'static str)> {
        super::real_grammars().into_iter().filter(|(g, _)| super::c04::no_user_semantics(g) && !g.any_regex(&|r| matches!(r, Regex::Choice(_)))).collect()
    }
    fn domain(&self, g: &Grammar, _i: &GInfo) -> Result<(), &'static str> {
        if g.any_regex(&|r| matches!(r, Regex::Pred(Some(_)) | Regex::Assert(_) | Regex::Choice(_) | Regex::Return)) {
            return Err("has ?n, !n, ordered choice or &");
        }
        if !crossing_shapes(g).is_empty() {
            return Err("node creation crossing a marker or an undoable attempt (not properly nested)");
        }
        if g.rules.iter().any(|r| r.body.is_none()) || g.any_regex(&|r| matches!(r, Regex::Paren(None))) {
            return Err("empty rule body");
        }
        Ok(())
    }
    fn requests(&self, g: &Grammar, info: &GInfo, gi: usize, d: &mut Dice<'_>, t: Tier) -> Vec<Req> {
        sentence_requests(g, info, gi, d, t.pick(60, 160), t.pick(14, 20))
    }
    fn judge(&self, g: &Grammar, info: &GInfo, req: &Req, rep: &Reply, _m: &mut dyn FnMut(&Req) -> Reply, ev: &mut Evidence) -> Verdict {
        if rep.status != Status::Ok {
            ev.exclude("parse did not return (C03 matter)");
            return Ok(());
        }
        let toks = inputs::strip_trivia(&req.tokens, g);
        let never = |_: &str, _: u32, _: usize| false;
        let rule = if req.entry == 0 { g.start } else { g.parts[req.entry - 1] };
        let out = Interp::new(g, info, &toks, req.entry, &never).run(rule, req.entry != 0);
        match out {
            Outcome::Accept { tree, actions, .. } => {
                if toks.len() >= 2 && node_op_kinds(g) >= 2 {
                    ev.nontrivial(&format!("{:?}{:?}{}", g, toks, req.entry));
                }
                ev.label("sentences_compared");
                if !rep.diags.is_empty() {
                    return Err((sig_of("spurious", &rep.diags[0].2), format!("sentence [{}] draws diagnostic {:?}", inputs::show(g, &toks), rep.diags[0])));
                }
                compare_accept(g, rep, &tree, &actions)
            }
            Outcome::Reject { pos } => {
                // Earley accepted the sentence and there is neither `/` nor `?n`: our two references
                // disagree (or `?t` prunes this sentence: then it is no sentence of the prioritised reading)
                if g.any_regex(&|r| matches!(r, Regex::Pred(None))) {
                    ev.exclude("sentence of the CFG, pruned by ?t");
                } else {
                    ev.exclude(&format!("INTERNAL: references disagree (interpreter rejects at {pos})"));
                    ev.label("internal_disagreement");
                }
                Ok(())
            }
            Outcome::Unknown(w) => {
                ev.exclude(&format!("interpreter: {w}"));
                Ok(())
            }
        }
    }
}

pub fn run05(ctx: &Ctx) -> i32 {
    labrun::main_lab(&P05, ctx)
}
