//! C13 — reading a grammar file recovers exactly the grammar that was written (round trip).

use super::Ctx;
use crate::dice::Dice;
use crate::ev::{Evidence, Report, Violation};
use crate::ggen::{self, Profile};
use crate::gm::*;
use crate::lw;
use crate::prop;
use crate::textgen;
use serde_json::json;

const RULE: &str = "grammar structures from choice streams (every declaration kind, every regex operator nested to depth <= 5, ordered choice, predicates/actions/assertions/markers/creations with multi-digit numbers, renames, symbols containing escaped quotes, backslashes, spaces, `<class>` and non-ASCII characters, shuffled and split declarations) x 3 random legal layouts each (arbitrary whitespace, line/doc/block comments in every gap; separators only where two lexemes would fuse by a punctuation whitelist). Oracle: no diagnostic from lexing/parsing, and the front end's typed view walked into a grammar model equals the model that was written (declarations in order, token symbols, skip/right/part lists, rule names and ^ flags, bodies with every operator, parentheses preserved, numbers, names); since the printer parenthesises only where its own precedence table demands, equality verifies postfix > concatenation > ordered choice > alternation. non-trivial = a rule body mixing >= 3 precedence levels (approximated: grammar contains alternation, ordered choice or concatenation under a postfix operator); distinct = the laid-out text";

const SYMS: &[&str] = &["\\'", "\\\\", "a b", "<int>", "é", "+=", "\\'\\\\\\'", "/*", "//", "😀!", "<", "\"", "{", "}{}", "\\\\n", "{0}", "%s", "\\\\"];

/// make symbols and numbers harder
pub fn toughen(g: &mut Grammar, d: &mut Dice<'_>) {
    for (i, t) in g.tokens.iter_mut().enumerate() {
        if t.symbol.is_some() && d.chance(1, 3) {
            let s = SYMS[d.below(SYMS.len())];
            if !s.is_empty() {
                // unique by a number in front or behind, so that every symbol shape also occurs
                // directly before the closing quote
                t.symbol = Some(if d.chance(1, 2) { format!("{s}{i}") } else { format!("{i}{s}") });
            }
        }
    }
    fn nums(r: &mut Regex, d: &mut Dice<'_>, remap: &mut std::collections::BTreeMap<u32, u32>) {
        match r {
            Regex::Pred(Some(n)) | Regex::Action(n) | Regex::Assert(n) => {
                if d.chance(1, 3) {
                    *n = *n * 37 + 100;
                }
            }
            Regex::Marker(n) => {
                let m = *remap.entry(*n).or_insert_with(|| if d.chance(1, 2) { *n * 13 + 10 } else { *n });
                *n = m;
            }
            Regex::Create(Some(n), _) => {
                if let Some(m) = remap.get(n) {
                    *n = *m;
                }
            }
            _ => {}
        }
        for c in r.children_mut() {
            nums(c, d, remap);
        }
    }
    for r in g.rules.iter_mut() {
        let mut remap = std::collections::BTreeMap::new();
        if let Some(b) = r.body.as_mut() {
            nums(b, d, &mut remap);
        }
    }
}

pub fn check_case(stream: &[u32], prof: &Profile, ev: &mut Evidence) -> Result<(), Violation> {
    let mut g = ggen::build(prof, stream);
    let tail: Vec<u32> = stream.iter().rev().take(200).copied().collect();
    let mut d = Dice::new(&tail);
    toughen(&mut g, &mut d);
    g.order = Some(g.decls());
    let mixed = g.any_regex(&|r| matches!(r, Regex::Star(b) | Regex::Plus(b) if matches!(&**b, Regex::Paren(Some(x)) if matches!(&**x, Regex::Alt(_) | Regex::Choice(_) | Regex::Concat(_))))) || g.any_regex(&|r| matches!(r, Regex::Choice(_)));
    for k in 0..3 {
        ev.eval();
        let p = if k == 0 { print(&g) } else { textgen::layout(&g, &mut d, k == 2) };
        let text = p.text.clone();
        if mixed {
            ev.nontrivial(&text);
        }
        if ev.samples.len() < 3 && ev.evaluations % 1013 == 5 {
            ev.sample(json!({"text": text}));
        }
        let t2 = text.clone();
        let res = lw::catch(move || (lw::syntax_diag_count(&t2), lw::import(&t2)));
        let replay = json!({"text": text, "profile": prof.name, "stream": stream});
        match res {
            Err(p) => return Err(Violation { sig: format!("panic:{}", p.split(" at ").last().unwrap_or("")), what: format!("front end panicked: {p}"), replay }),
            Ok((n, _)) if n > 0 => {
                let t3 = text.clone();
                let first = lw::diagnostics(&t3).0.first().map(|d| format!("{} at {:?}", d.message, d.primary())).unwrap_or_default();
                return Err(Violation { sig: "syntax-error-on-legal-text".into(), what: format!("legal layout draws a syntax diagnostic: {first}\n{text}"), replay });
            }
            Ok((_, None)) => return Err(Violation { sig: "view-incomplete".into(), what: format!("the typed view of a legal text cannot be walked completely\n{text}"), replay }),
            Ok((_, Some(g2))) => {
                let (a, b) = (named(&g), named(&g2));
                if a != b {
                    let la: Vec<&str> = a.lines().collect();
                    let lb: Vec<&str> = b.lines().collect();
                    let i = (0..la.len().max(lb.len())).find(|i| la.get(*i) != lb.get(*i)).unwrap_or(0);
                    let what = la.get(i).or(lb.get(i)).map(|l| l.split(' ').next().unwrap_or("")).unwrap_or("").to_string();
                    return Err(Violation {
                        sig: format!("roundtrip:{what}"),
                        what: format!("grammar read back differs from the grammar written: written `{}`, read back `{}`\n{text}", la.get(i).unwrap_or(&""), lb.get(i).unwrap_or(&"")),
                        replay,
                    });
                }
            }
        }
    }
    Ok(())
}

pub fn profiles() -> Vec<Profile> {
    vec![
        Profile { depth: 5, repair: false, c11_shapes: true, ..Profile::full() },
        Profile { depth: 4, max_rules: 8, ..Profile::text() },
        Profile { repair: false, choice: true, choice_weight: 6, preds: true, nodeops: true, actions: true, asserts: true, returns: true, empty_rules: true, parts: true, skips: true, shuffle_decls: true, ..Profile::base("dense-unrepaired") },
    ]
}

/// Re-evaluate a saved reproduction: with its choice stream the whole case (model -> layouts ->
/// typed view -> model); with a text alone: the text is legal, so no syntax diagnostic, a complete
/// typed view, and the view printed canonically reads back equal.
fn replay_file(f: &std::path::Path, ev: &mut Evidence, rep: &mut Report) {
    let Ok(s) = std::fs::read_to_string(f) else { return };
    let Ok(v) = serde_json::from_str::<serde_json::Value>(&s) else { return };
    ev.label("replayed");
    let r = &v["replay"];
    if let (Some(stream), Some(pname)) = (r["stream"].as_array(), r["profile"].as_str()) {
        let stream: Vec<u32> = stream.iter().filter_map(|x| x.as_u64().map(|x| x as u32)).collect();
        if let Some(p) = profiles().into_iter().find(|p| p.name == pname) {
            if let Err(v) = check_case(&stream, &p, ev) {
                rep.violation(v);
            }
            return;
        }
    }
    if let Some(text) = r["text"].as_str() {
        ev.eval();
        let t2 = text.to_string();
        let replay = json!({"text": text});
        match lw::catch(move || (lw::syntax_diag_count(&t2), lw::import(&t2))) {
            Err(p) => rep.violation(Violation { sig: format!("panic:{}", p.split(" at ").last().unwrap_or("")), what: format!("front end panicked: {p}"), replay }),
            Ok((n, _)) if n > 0 => {
                let first = lw::diagnostics(text).0.first().map(|d| format!("{} at {:?}", d.message, d.primary())).unwrap_or_default();
                rep.violation(Violation { sig: "syntax-error-on-legal-text".into(), what: format!("legal layout draws a syntax diagnostic: {first}\n{text}"), replay });
            }
            Ok((_, None)) => rep.violation(Violation { sig: "view-incomplete".into(), what: format!("the typed view of a legal text cannot be walked completely\n{text}"), replay }),
            Ok((_, Some(g))) => {
                let p = print(&g).text;
                match lw::import(&p) {
                    Some(g2) if named(&g2) == named(&g) => {}
                    _ => rep.violation(Violation { sig: "roundtrip:repo".into(), what: "model -> text -> model is not the identity".into(), replay }),
                }
            }
        }
    }
}

pub fn run(ctx: &Ctx) -> i32 {
    let mut ev = Evidence::new("C13", ctx.tier, ctx.seed, RULE);
    let mut rep = Report::new("C13");
    let files = match &ctx.replay {
        Some(p) => vec![p.clone()],
        None => super::replay_files("C13"),
    };
    for f in &files {
        replay_file(f, &mut ev, &mut rep);
    }
    if ctx.replay.is_some() {
        let code = rep.finish(&mut ev);
        ev.write();
        return code;
    }
    let cases = ctx.tier.pick(1_000_000u32, 6_000_000u32);
    for p in profiles() {
        let out = prop::run_prop("C13", ctx.tier, ctx.seed, p.name, cases / 3, ctx.threads, 700, |stream, ev| check_case(stream, &p, ev));
        ev.merge(out.ev);
        for v in out.violations.into_iter().chain(out.known_hits) {
            rep.violation(v);
        }
    }
    // the repository's own files: canonical print of the imported model reads back equal
    for (name, text) in textgen::repo_texts() {
        let t2 = text.clone();
        if let Ok(Some(g)) = lw::catch(move || lw::import(&t2)) {
            ev.eval();
            let p = print(&g).text;
            match lw::import(&p) {
                Some(g2) if named(&g2) == named(&g) => {}
                _ => rep.violation(Violation { sig: "roundtrip:repo".into(), what: format!("{name}: model -> text -> model is not the identity"), replay: json!({"text": p}) }),
            }
        }
    }
    crate::fuzzstage::maybe(ctx, "C13", &mut ev, &mut rep);
    let code = rep.finish(&mut ev);
    ev.write();
    code
}
