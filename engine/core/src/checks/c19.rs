//! C19 — the tool only writes what it promises and never clobbers hand-edited files.
//! Exhaustive table of flag combinations x file states x verdicts, each run through the real
//! `llw` binary with before/after directory snapshots compared against an effects model.

use super::Ctx;
use crate::dice::{self, Dice};
use crate::ev::{self, Evidence, Report, Violation};
use crate::ggen::{self, Profile};
use crate::gm::print;
use crate::lab;
use crate::lw;
use proptest::strategy::ValueTree;
use rayon::prelude::*;
use serde_json::json;
use std::collections::BTreeMap;
use std::path::{Path, PathBuf};
use std::process::Command;

const RULE: &str = "configurations enumerated exhaustively: check x format x graph x verbosity {0,1,2} x short x output {default, other directory, path that is a regular file, missing directory} x pre-existing {none, lexer.rs, parser.rs, both} x verdict {accepted, warnings only, syntax error, semantic error, missing input, input is a directory, input not UTF-8} x, with -f, {input as generated, input already formatted} x, in generate mode, {grammar given with a directory, grammar given as a bare file name from its own directory} (7488 configurations), each with a grammar drawn from a generated pool of its verdict class (1 per configuration quick, 4 thorough), plus lelwel::build through a helper process with OUT_DIR set. Oracle: snapshot (names, bytes, modification times) of working directory, input directory and output directory before and after the real `llw` process against an effects model from the statement: check mode => no difference at all; generate => generated.rs appears iff no error and the output directory is usable, lexer.rs/parser.rs appear iff no error and neither existed, pre-existing ones byte-identical; format without check => only the input file may change and becomes format(x); parser.gv only with -g outside check mode; exit status 0 <=> no error diagnostic (I/O failure counts as error); never a panic. non-trivial = configuration whose expected effect set is non-empty or that combines check with a writing flag; distinct = configuration";

#[derive(Clone, Copy, Debug, PartialEq, Eq)]
pub enum Verdict {
    Accepted,
    Warnings,
    SyntaxError,
    SemanticError,
    Missing,
    IsDir,
    NotUtf8,
}

#[derive(Clone, Copy, Debug, PartialEq, Eq)]
pub enum OutKind {
    Default,
    OtherDir,
    RegularFile,
    MissingDir,
}

#[derive(Clone, Debug)]
pub struct Config {
    pub check: bool,
    pub format: bool,
    pub graph: bool,
    pub verbose: u8,
    pub short: bool,
    pub out: OutKind,
    pub pre_lexer: bool,
    pub pre_parser: bool,
    pub verdict: Verdict,
    /// the input file already holds format(x) (only varied together with -f)
    pub formatted: bool,
    /// the grammar is given as a bare file name (llw runs in the grammar's directory)
    pub bare: bool,
}

impl Config {
    fn to_json(&self) -> serde_json::Value {
        json!({"check": self.check, "format": self.format, "graph": self.graph, "verbose": self.verbose, "short": self.short,
            "out": format!("{:?}", self.out), "pre_lexer": self.pre_lexer, "pre_parser": self.pre_parser, "verdict": format!("{:?}", self.verdict),
            "formatted": self.formatted, "bare": self.bare})
    }
    fn from_json(v: &serde_json::Value) -> Option<Config> {
        let b = |k: &str| v[k].as_bool().unwrap_or(false);
        let out = match v["out"].as_str()? {
            "Default" => OutKind::Default,
            "OtherDir" => OutKind::OtherDir,
            "RegularFile" => OutKind::RegularFile,
            "MissingDir" => OutKind::MissingDir,
            _ => return None,
        };
        let verdict = match v["verdict"].as_str()? {
            "Accepted" => Verdict::Accepted,
            "Warnings" => Verdict::Warnings,
            "SyntaxError" => Verdict::SyntaxError,
            "SemanticError" => Verdict::SemanticError,
            "Missing" => Verdict::Missing,
            "IsDir" => Verdict::IsDir,
            "NotUtf8" => Verdict::NotUtf8,
            _ => return None,
        };
        Some(Config { check: b("check"), format: b("format"), graph: b("graph"), verbose: v["verbose"].as_u64().unwrap_or(0) as u8, short: b("short"), out, pre_lexer: b("pre_lexer"), pre_parser: b("pre_parser"), verdict, formatted: b("formatted"), bare: b("bare") })
    }
}

type Snap = BTreeMap<String, (Vec<u8>, std::time::SystemTime)>;

fn snapshot(root: &Path) -> Snap {
    let mut m = Snap::new();
    fn rec(root: &Path, dir: &Path, m: &mut Snap) {
        if let Ok(rd) = std::fs::read_dir(dir) {
            for e in rd.flatten() {
                let p = e.path();
                let rel = p.strip_prefix(root).unwrap().display().to_string();
                if p.is_dir() {
                    m.insert(format!("{rel}/"), (vec![], std::time::UNIX_EPOCH));
                    rec(root, &p, m);
                } else {
                    let bytes = std::fs::read(&p).unwrap_or_default();
                    let mt = e.metadata().and_then(|x| x.modified()).unwrap_or(std::time::UNIX_EPOCH);
                    m.insert(rel, (bytes, mt));
                }
            }
        }
    }
    rec(root, root, &mut m);
    m
}

pub struct Pools {
    pub accepted: Vec<String>,
    pub warnings: Vec<String>,
    pub syntax: Vec<String>,
    pub semantic: Vec<String>,
}

pub fn build_pools(seed: u64, per_class: usize) -> Pools {
    let mut p = Pools { accepted: vec![], warnings: vec![], syntax: vec![], semantic: vec![] };
    let mut runner = dice::runner(dice::mix(seed, &[dice::tag("C19")]), 1);
    let profs = [Profile::ebnf(), Profile { c11_shapes: false, ..Profile::full() }, Profile { repair: false, ..Profile::full() }];
    let mut tries = 0;
    while (p.accepted.len() < per_class || p.warnings.len() < per_class || p.syntax.len() < per_class || p.semantic.len() < per_class) && tries < 4000 {
        tries += 1;
        let t = dice::draw_trees(&mut runner, 500, 1).pop().unwrap();
        let stream = t.current();
        let g = ggen::build(&profs[tries % 3], &stream);
        let text = print(&g).text;
        let t2 = text.clone();
        let Ok((d, nsyn)) = lw::catch(move || lw::diagnostics(&t2)) else { continue };
        let has_err = d.iter().any(|x| x.error);
        if nsyn == 0 && !has_err && d.is_empty() && p.accepted.len() < per_class {
            p.accepted.push(text.clone());
        } else if nsyn == 0 && !has_err && !d.is_empty() && p.warnings.len() < per_class {
            p.warnings.push(text.clone());
        } else if nsyn == 0 && has_err && p.semantic.len() < per_class {
            p.semantic.push(text.clone());
        }
        if p.syntax.len() < per_class && tries % 3 == 0 {
            // break the syntax: drop the last `;` or add a stray token
            let mut d = Dice::new(&stream);
            let broken = if d.chance(1, 2) { text.trim_end().trim_end_matches(';').to_string() } else { format!("{text}\n) ;\n") };
            let b2 = broken.clone();
            if let Ok((_, n)) = lw::catch(move || lw::diagnostics(&b2)) {
                if n > 0 {
                    p.syntax.push(broken);
                }
            }
        }
    }
    p
}

pub fn llw() -> PathBuf {
    ev::root().join("engine/target/repo-bins/debug/llw")
}

fn run_config(c: &Config, text: &str, dir: &Path) -> Result<bool, Violation> {
    let _ = std::fs::remove_dir_all(dir);
    let (cwd, indir, outdir) = (dir.join("cwd"), dir.join("in"), dir.join("out"));
    for d in [&cwd, &indir] {
        std::fs::create_dir_all(d).unwrap();
    }
    let input = indir.join("g.llw");
    match c.verdict {
        Verdict::Missing => {}
        Verdict::IsDir => std::fs::create_dir_all(&input).unwrap(),
        Verdict::NotUtf8 => std::fs::write(&input, [0x74u8, 0x6f, 0xff, 0xfe, 0x3b]).unwrap(),
        _ => std::fs::write(&input, text).unwrap(),
    }
    if c.pre_lexer {
        std::fs::write(indir.join("lexer.rs"), "// hand edited lexer\n").unwrap();
    }
    if c.pre_parser {
        std::fs::write(indir.join("parser.rs"), "// hand edited parser\n").unwrap();
    }
    match c.out {
        OutKind::OtherDir => std::fs::create_dir_all(&outdir).unwrap(),
        OutKind::RegularFile => std::fs::write(&outdir, "i am a file").unwrap(),
        _ => {}
    }
    // let mtimes settle so that a rewrite with identical bytes is visible
    std::thread::sleep(std::time::Duration::from_millis(15));
    let before = snapshot(dir);
    let mut cmd = Command::new(llw());
    cmd.current_dir(if c.bare { &indir } else { &cwd }).env("NO_COLOR", "1");
    if c.check {
        cmd.arg("-c");
    }
    if c.format {
        cmd.arg("-f");
    }
    if c.graph {
        cmd.arg("-g");
    }
    if c.short {
        cmd.arg("-s");
    }
    for _ in 0..c.verbose {
        cmd.arg("-v");
    }
    if c.out != OutKind::Default {
        cmd.arg("-o").arg(&outdir);
    }
    if c.bare {
        cmd.arg("g.llw");
    } else {
        cmd.arg(&input);
    }
    let out = cmd.output().expect("cannot run llw");
    let after = snapshot(dir);
    let stderr = String::from_utf8_lossy(&out.stderr).to_string();
    let replay = json!({"config": c.to_json(), "grammar": text});
    let viol = |sig: &str, what: String| Violation { sig: sig.to_string(), what: format!("{what} [config {c:?}; exit {:?}]", out.status.code()), replay: replay.clone() };
    if stderr.contains("panicked at") || out.status.code().is_none() || out.status.code() == Some(101) {
        let line = stderr.lines().find(|l| l.contains("panicked at")).unwrap_or("").to_string();
        let loc = line.split("panicked at ").nth(1).unwrap_or("").split(':').take(2).collect::<Vec<_>>().join(":");
        return Err(viol(&format!("panic:{loc}"), format!("llw panicked: {line}")));
    }
    // differences
    let mut created = vec![];
    let mut modified = vec![];
    let mut removed = vec![];
    for (k, v) in &after {
        match before.get(k) {
            None => created.push(k.clone()),
            Some(b) if b != v => modified.push(k.clone()),
            _ => {}
        }
    }
    for k in before.keys() {
        if !after.contains_key(k) {
            removed.push(k.clone());
        }
    }
    // effects model
    let readable = matches!(c.verdict, Verdict::Accepted | Verdict::Warnings | Verdict::SyntaxError | Verdict::SemanticError);
    let has_error = matches!(c.verdict, Verdict::SyntaxError | Verdict::SemanticError);
    let out_rel = match c.out {
        OutKind::Default if c.bare => "in/generated.rs".to_string(),
        OutKind::Default => "cwd/generated.rs".to_string(),
        _ => "out/generated.rs".to_string(),
    };
    let out_usable = matches!(c.out, OutKind::Default | OutKind::OtherDir);
    let mut exp_created: Vec<String> = vec![];
    let mut exp_modified: Vec<String> = vec![];
    let mut exp_exit_ok;
    if !readable {
        exp_exit_ok = false;
    } else if c.format {
        if c.check {
            let t2 = text.to_string();
            let same = lw::catch(move || lw::format_text(&t2)).map(|f| f == text).unwrap_or(false);
            exp_exit_ok = same;
        } else {
            exp_exit_ok = true;
            let t2 = text.to_string();
            if let Ok(f) = lw::catch(move || lw::format_text(&t2)) {
                if f != text {
                    exp_modified.push("in/g.llw".into());
                }
                // content must be exactly format(x)
                if let Some((bytes, _)) = after.get("in/g.llw") {
                    if bytes != f.as_bytes() {
                        return Err(viol("format-content", "after `llw -f` the file does not hold format(x)".into()));
                    }
                }
            }
        }
    } else {
        exp_exit_ok = !has_error;
        if !has_error {
            if c.graph && !c.check {
                exp_created.push(if c.bare { "in/parser.gv".into() } else { "cwd/parser.gv".into() });
            }
            if !c.check {
                if out_usable {
                    exp_created.push(out_rel.clone());
                    if !c.pre_lexer && !c.pre_parser {
                        exp_created.push("in/lexer.rs".into());
                        exp_created.push("in/parser.rs".into());
                    }
                } else {
                    exp_exit_ok = false;
                }
            }
        }
    }
    created.sort();
    exp_created.sort();
    modified.sort();
    // a rewrite of the input with identical bytes in format mode shows as modified mtime: allowed
    if c.format && !c.check && readable {
        modified.retain(|m| m != "in/g.llw" || exp_modified.contains(m));
        let mut em = exp_modified.clone();
        em.retain(|m| modified.contains(m));
        exp_modified = em;
    }
    if !removed.is_empty() {
        return Err(viol("removed-files", format!("files removed: {removed:?}")));
    }
    for f in &modified {
        if !exp_modified.contains(f) {
            let class = if f.ends_with("lexer.rs") || f.ends_with("parser.rs") { "clobbered-skeleton" } else if c.check { "check-mode-modified" } else { "unexpected-modification" };
            return Err(viol(&format!("{class}:{}", f.rsplit('/').next().unwrap_or("")), format!("file {f} was modified")));
        }
    }
    for f in &created {
        if !exp_created.contains(f) {
            let class = if c.check { "check-mode-created" } else if has_error { "created-despite-error" } else { "unexpected-file" };
            return Err(viol(&format!("{class}:{}", f.rsplit('/').next().unwrap_or("")), format!("file {f} was created but the effects model does not allow it")));
        }
    }
    for f in &exp_created {
        if !created.contains(f) {
            return Err(viol(&format!("missing-output:{}", f.rsplit('/').next().unwrap_or("")), format!("file {f} should have been written")));
        }
    }
    let ok = out.status.code() == Some(0);
    if ok != exp_exit_ok {
        return Err(viol(if ok { "exit-0-despite-error" } else { "exit-nonzero-without-error" }, format!("exit status {:?}, expected {}", out.status.code(), if exp_exit_ok { "0" } else { "non-zero" })));
    }
    Ok(!exp_created.is_empty() || !exp_modified.is_empty() || (c.check && (c.graph || c.format)))
}

pub fn all_configs() -> Vec<Config> {
    let mut v = vec![];
    for check in [false, true] {
        for format in [false, true] {
            for graph in [false, true] {
                for verbose in 0..3u8 {
                    for short in [false, true] {
                        for out in [OutKind::Default, OutKind::OtherDir, OutKind::RegularFile, OutKind::MissingDir] {
                            for (pre_lexer, pre_parser) in [(false, false), (true, false), (false, true), (true, true)] {
                                for verdict in [Verdict::Accepted, Verdict::Warnings, Verdict::SyntaxError, Verdict::SemanticError, Verdict::Missing, Verdict::IsDir, Verdict::NotUtf8] {
                                    v.push(Config { check, format, graph, verbose, short, out, pre_lexer, pre_parser, verdict, formatted: false, bare: false });
                                    if !check && !format && matches!(verdict, Verdict::Accepted | Verdict::Warnings | Verdict::SemanticError) {
                                        v.push(Config { check, format, graph, verbose, short, out, pre_lexer, pre_parser, verdict, formatted: false, bare: true });
                                    }
                                    if format && matches!(verdict, Verdict::Accepted | Verdict::Warnings | Verdict::SyntaxError | Verdict::SemanticError) {
                                        v.push(Config { check, format, graph, verbose, short, out, pre_lexer, pre_parser, verdict, formatted: true, bare: false });
                                    }
                                }
                            }
                        }
                    }
                }
            }
        }
    }
    v
}

pub fn run(ctx: &Ctx) -> i32 {
    let mut ev = Evidence::new("C19", ctx.tier, ctx.seed, RULE);
    let mut rep = Report::new("C19");
    // saved reproductions: configuration + the text of the grammar file
    let files = match &ctx.replay {
        Some(p) => vec![p.clone()],
        None => super::replay_files("C19"),
    };
    for f in &files {
        let Ok(s) = std::fs::read_to_string(f) else { continue };
        let Ok(v) = serde_json::from_str::<serde_json::Value>(&s) else { continue };
        let (Some(c), Some(text)) = (Config::from_json(&v["replay"]["config"]), v["replay"]["grammar"].as_str()) else { continue };
        let dir = lab::scratch_root().join("c19-replay");
        ev.eval();
        ev.label("replayed");
        if let Err(v) = run_config(&c, text, &dir) {
            rep.violation(v);
        }
        let _ = std::fs::remove_dir_all(&dir);
    }
    if ctx.replay.is_some() {
        lab::cleanup_scratch();
        let code = rep.finish(&mut ev);
        ev.write();
        return code;
    }
    let per = ctx.tier.pick(8, 40);
    let pools = build_pools(ctx.seed, per);
    ev.set("pool_sizes", json!({"accepted": pools.accepted.len(), "warnings": pools.warnings.len(), "syntax": pools.syntax.len(), "semantic": pools.semantic.len()}));
    if pools.accepted.is_empty() || pools.warnings.is_empty() || pools.syntax.is_empty() || pools.semantic.is_empty() {
        eprintln!("inconclusive: could not build grammar pools");
        return 2;
    }
    let configs = all_configs();
    let reps = ctx.tier.pick(1, 4);
    let jobs: Vec<(usize, &Config, usize)> = configs.iter().enumerate().flat_map(|(i, c)| (0..reps).map(move |r| (i, c, r))).collect();
    let pool = rayon::ThreadPoolBuilder::new().num_threads(ctx.threads).build().unwrap();
    let base = lab::scratch_root().join("c19");
    let results: Vec<(Result<bool, Violation>, String)> = pool.install(|| {
        jobs.par_iter()
            .map(|(i, c, r)| {
                let pick = |v: &Vec<String>| v[(i * 7 + r * 13) % v.len()].clone();
                let text = match c.verdict {
                    Verdict::Accepted => pick(&pools.accepted),
                    Verdict::Warnings => pick(&pools.warnings),
                    Verdict::SyntaxError => pick(&pools.syntax),
                    Verdict::SemanticError => pick(&pools.semantic),
                    _ => String::new(),
                };
                let text = if c.formatted {
                    let t2 = text.clone();
                    lw::catch(move || lw::format_text(&t2)).unwrap_or(text)
                } else {
                    text
                };
                let dir = base.join(format!("j{i}-{r}"));
                let res = run_config(c, &text, &dir);
                let _ = std::fs::remove_dir_all(&dir);
                (res, format!("{c:?}"))
            })
            .collect()
    });
    for (res, cfg) in results {
        ev.eval();
        match res {
            Ok(nt) => {
                if nt {
                    ev.nontrivial(&cfg);
                }
                if ev.samples.len() < 4 && ev.evaluations % 1201 == 7 {
                    ev.sample(json!({"config": cfg}));
                }
            }
            Err(v) => rep.violation(v),
        }
    }
    ev.exhaustive = Some(true);
    ev.set("configurations", json!(configs.len()));
    // lelwel::build through a helper process
    let exe = std::env::current_exe().unwrap();
    for (k, (text, should_ok)) in [(pools.accepted[0].clone(), true), (pools.semantic[0].clone(), false), (pools.warnings[0].clone(), true)].into_iter().enumerate() {
        let dir = base.join(format!("build{k}"));
        let _ = std::fs::remove_dir_all(&dir);
        std::fs::create_dir_all(dir.join("src")).unwrap();
        std::fs::create_dir_all(dir.join("out")).unwrap();
        std::fs::write(dir.join("src/g.llw"), &text).unwrap();
        let out = Command::new(&exe).current_dir(&dir).env("OUT_DIR", dir.join("out")).args(["build-helper", "src/g.llw"]).output().expect("helper");
        ev.eval();
        ev.label("build_helper_runs");
        let genf = dir.join("out/generated.rs").exists();
        let skel = dir.join("src/parser.rs").exists() && dir.join("src/lexer.rs").exists();
        let ok = out.status.code() == Some(0);
        if ok != should_ok || genf != should_ok || skel != should_ok {
            rep.violation(Violation { sig: "build-effects".into(), what: format!("lelwel::build: exit ok={ok}, generated.rs={genf}, skeletons={skel}, expected all {should_ok}"), replay: json!({"grammar": text}) });
        }
        let _ = std::fs::remove_dir_all(&dir);
    }
    // the same with the grammar named by a bare file name (build script running in its directory)
    {
        let dir = base.join("build-bare");
        let _ = std::fs::remove_dir_all(&dir);
        std::fs::create_dir_all(dir.join("src")).unwrap();
        std::fs::create_dir_all(dir.join("out")).unwrap();
        std::fs::write(dir.join("src/g.llw"), &pools.accepted[0]).unwrap();
        let out = Command::new(&exe).current_dir(dir.join("src")).env("OUT_DIR", dir.join("out")).args(["build-helper", "g.llw"]).output().expect("helper");
        ev.eval();
        ev.label("build_helper_runs");
        let mut out_files: Vec<String> = std::fs::read_dir(dir.join("out")).map(|d| d.flatten().map(|e| e.file_name().to_string_lossy().to_string()).collect()).unwrap_or_default();
        out_files.sort();
        let skel = dir.join("src/parser.rs").exists() && dir.join("src/lexer.rs").exists();
        if out.status.code() != Some(0) || out_files != ["generated.rs"] || !skel {
            rep.violation(Violation { sig: "build-effects-bare".into(), what: format!("lelwel::build(\"g.llw\") from the grammar's directory: exit {:?}, OUT_DIR holds {out_files:?} (expected only generated.rs), skeletons next to the grammar: {skel}", out.status.code()), replay: json!({"grammar": pools.accepted[0]}) });
        }
        let _ = std::fs::remove_dir_all(&dir);
    }
    lab::cleanup_scratch();
    let code = rep.finish(&mut ev);
    ev.write();
    code
}
