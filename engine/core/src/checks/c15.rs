//! C15 — output is reproducible and independent of declaration order.

use super::Ctx;
use super::c01::standard_requests;
use crate::alab;
use crate::dice::{self, Dice};
use crate::ev::{self, Evidence, Report, Violation};
use crate::ggen::{self, Profile};
use crate::gm::*;
use crate::lab::{self, LabOpts, Req};
use crate::lw;
use proptest::strategy::ValueTree;
use rayon::prelude::*;
use serde_json::json;
use std::collections::BTreeMap;
use std::process::Command;

const RULE: &str = "(a) reproducibility: generated accepted and rejected grammars (all profiles) and repository grammars, each run 3 times through the real `llw` binary in fresh processes from different working directories and with perturbed environments, and twice in-process: generated.rs byte-identical, stderr text identical; (b) declaration order: accepted generated grammars x random permutations of their top-level declarations (token lists split and re-ordered; skip/right/start/part moved across the rules they affect): warnings equal as multisets of (code, message, spanned text), first/follow/predict/recovery sets equal per regex node, and both variants compiled in the parser lab return identical trees, diagnostics and action logs on the same generated inputs. non-trivial (b) = permutation that moves a skip/right/start/part declaration behind a rule declaration; distinct = (grammar text, permutation)";

fn llw() -> std::path::PathBuf {
    ev::root().join("engine/target/repo-bins/debug/llw")
}

fn sets_by_id(g: &Grammar) -> Result<(Vec<String>, Vec<(Option<String>, String, String)>, bool), String> {
    let a = alab::analyse(g)?;
    let mut out = vec![];
    for id in 0..a.flat.nodes.len() {
        let s = a.run.sets.get(&a.printed.spans[id]);
        out.push(format!("{:?}", s.map(|s| (&s.first, &s.follow, &s.predict, &s.recovery))));
    }
    let text = &a.printed.text;
    let mut w: Vec<(Option<String>, String, String)> = a
        .run
        .diags
        .iter()
        .map(|d| (d.code.clone(), d.message.clone(), d.labels.iter().map(|l| format!("{}:{}", text.get(l.start..l.end).unwrap_or("?"), l.message)).collect::<Vec<_>>().join("|")))
        .collect();
    w.sort();
    Ok((out, w, a.run.accepted))
}

/// names of the callback methods of the emitted `ParserCallbacks` trait (the interface a user
/// implements), and the sorted lines of the emitted file
fn emitted_interface(text: &str) -> Option<(std::collections::BTreeSet<String>, Vec<String>)> {
    let dir = lab::scratch_root().join(format!("c15-emit-{:?}", std::thread::current().id()).replace(['(', ')'], ""));
    let _ = std::fs::remove_dir_all(&dir);
    let t2 = text.to_string();
    let d2 = dir.clone();
    let ok = lw::catch(move || lw::emit(&t2, &d2).is_ok()).unwrap_or(false);
    let generated = std::fs::read_to_string(dir.join("generated.rs")).ok();
    let _ = std::fs::remove_dir_all(&dir);
    if !ok {
        return None;
    }
    let generated = generated?;
    let mut names = std::collections::BTreeSet::new();
    let mut inside = false;
    for l in generated.lines() {
        if l.starts_with("pub trait ParserCallbacks") {
            inside = true;
        } else if inside && l.starts_with('}') {
            break;
        } else if inside {
            if let Some(p) = l.trim_start().strip_prefix("fn ") {
                names.insert(p.split(['(', '<']).next().unwrap_or("").to_string());
            }
        }
    }
    let mut lines: Vec<String> = generated.lines().map(|l| l.to_string()).collect();
    lines.sort();
    Some((names, lines))
}

fn moves_list_behind_rule(g: &Grammar) -> bool {
    let d = g.decls();
    let first_rule = d.iter().position(|x| matches!(x, Decl::Rule(_))).unwrap_or(d.len());
    d.iter().enumerate().any(|(i, x)| i > first_rule && matches!(x, Decl::Skip(_) | Decl::Right(_) | Decl::Start | Decl::Part(_)))
}

/// (a) one grammar text: three runs of the real binary in fresh processes from different
/// directories with perturbed environments, and two analyses in one process
fn repro_case(i: usize, text: &str, base: &std::path::Path) -> Option<Violation> {
        let mut outs = vec![];
        for r in 0..3 {
            let dir = base.join(format!("a{i}-{r}")).join(["x", "deeper/nested", "y y"][r]);
            std::fs::create_dir_all(&dir).unwrap();
            std::fs::write(dir.join("g.llw"), text).unwrap();
            let mut cmd = Command::new(llw());
            cmd.current_dir(&dir).args(["-s", "g.llw"]).env("NO_COLOR", "1");
            match r {
                1 => {
                    cmd.env("HOME", "/nonexistent").env("LANG", "C").env("RUST_BACKTRACE", "1").env("TZ", "Pacific/Chatham");
                }
                2 => {
                    cmd.env_clear().env("PATH", "/usr/bin").env("NO_COLOR", "1").env("LELWEL_JUNK", "x".repeat(5000));
                }
                _ => {}
            }
            let o = cmd.output().expect("llw");
            let generated = std::fs::read(dir.join("generated.rs")).ok();
            outs.push((o.status.code(), String::from_utf8_lossy(&o.stderr).to_string(), generated));
        }
        let _ = std::fs::remove_dir_all(base.join(format!("a{i}-0")));
        let _ = std::fs::remove_dir_all(base.join(format!("a{i}-1")));
        let _ = std::fs::remove_dir_all(base.join(format!("a{i}-2")));
        // in-process twice
        let (t1, t2) = (text.to_string(), text.to_string());
        let d1 = lw::catch(move || lw::analyze(&t1)).ok().map(|r| r.diags);
        let d2 = lw::catch(move || lw::analyze(&t2)).ok().map(|r| r.diags);
        if d1 != d2 {
            return Some(Violation { sig: "inprocess-diags-differ".into(), what: "two analyses of the same text in one process give different diagnostics".into(), replay: json!({"grammar": text}) });
        }
        for r in 1..3 {
            if outs[r].0 != outs[0].0 {
                return Some(Violation { sig: "exit-differs".into(), what: format!("exit status differs between runs: {:?} vs {:?}", outs[0].0, outs[r].0), replay: json!({"grammar": text}) });
            }
            if outs[r].2 != outs[0].2 {
                return Some(Violation { sig: "generated-differs".into(), what: "generated.rs differs between two runs on the same grammar".into(), replay: json!({"grammar": text}) });
            }
            if outs[r].1 != outs[0].1 {
                return Some(Violation { sig: "stderr-differs".into(), what: format!("diagnostic output differs between runs:\n{}\n---\n{}", outs[0].1, outs[r].1), replay: json!({"grammar": text}) });
            }
        }
        None
}

/// (b) the static part for one pair: verdict, warnings and analysis sets of a grammar and a
/// reordering of its declarations
fn pair_case(g: &Grammar, v: &Grammar) -> Option<Violation> {
    let replay = json!({"grammar": print(g).text, "permuted": print(v).text});
    let (a, b) = match (sets_by_id(g), sets_by_id(v)) {
        (Ok(a), Ok(b)) => (a, b),
        (Err(p), _) | (_, Err(p)) => return Some(Violation { sig: "panic".into(), what: format!("panic on a grammar of the pair: {p}"), replay }),
    };
    if a.2 != b.2 {
        return Some(Violation { sig: "verdict-changes".into(), what: "an accepted grammar is rejected after reordering its declarations".into(), replay });
    }
    if !a.2 {
        return None;
    }
    if a.1 != b.1 {
        return Some(Violation { sig: "warnings-differ".into(), what: format!("warnings differ after reordering declarations: {:?} vs {:?}", a.1, b.1), replay });
    }
    // (imported texts number their rules in file order: compare per rule name)
    let by_rule = |g: &Grammar, sets: &Vec<String>| -> std::collections::BTreeMap<String, Vec<String>> {
        let flat = Flat::new(g);
        let mut m: std::collections::BTreeMap<String, Vec<String>> = Default::default();
        for (id, n) in flat.nodes.iter().enumerate() {
            m.entry(g.rules[n.rule].name.clone()).or_default().push(sets.get(id).cloned().unwrap_or_default());
        }
        m
    };
    if by_rule(g, &a.0) != by_rule(v, &b.0) {
        let i = a.0.iter().zip(&b.0).position(|(x, y)| x != y).unwrap_or(0);
        return Some(Violation { sig: "sets-differ".into(), what: format!("analysis sets of regex node {i} differ after reordering declarations: {} vs {}", a.0[i], b.0[i]), replay });
    }
    None
}

pub fn run(ctx: &Ctx) -> i32 {
    let mut ev = Evidence::new("C15", ctx.tier, ctx.seed, RULE);
    let mut rep = Report::new("C15");
    // saved reproductions
    let files = match &ctx.replay {
        Some(p) => vec![p.clone()],
        None => super::replay_files("C15"),
    };
    for f in &files {
        let Ok(s) = std::fs::read_to_string(f) else { continue };
        let Ok(v) = serde_json::from_str::<serde_json::Value>(&s) else { continue };
        let r = &v["replay"];
        let Some(text) = r["grammar"].as_str() else { continue };
        ev.eval();
        ev.label("replayed");
        if let Some(perm) = r["permuted"].as_str() {
            let (t1, t2) = (text.to_string(), perm.to_string());
            if let (Ok(Some(g)), Ok(Some(v2))) = (lw::catch(move || lw::import(&t1)), lw::catch(move || lw::import(&t2))) {
                if let Some(v) = pair_case(&g, &v2) {
                    rep.violation(v);
                } else if let Some(req) = crate::labrun::req_from_json(&g, &r["request"]) {
                    // behaviour of the two generated parsers on the saved request
                    let mut batch = lab::build_batch(&[(g.clone(), print(&g).text), (v2.clone(), print(&v2).text)], &LabOpts::default());
                    if batch.ready(0) && batch.ready(1) {
                        let key = |rep: &lab::Reply| (format!("{:?}", rep.status).split('(').next().unwrap_or("").to_string(), rep.tree.as_ref().map(|t| t.dump()), rep.diags.clone(), rep.log.iter().filter(|e| matches!(e, lab::Event::Action(..))).count(), rep.log.iter().filter(|e| matches!(e, lab::Event::Created(..))).count(), rep.log.iter().filter(|e| matches!(e, lab::Event::Deleted(..))).count());
                        let mut r0 = req.clone();
                        r0.gi = 0;
                        let mut r1 = req.clone();
                        r1.gi = 1;
                        let (k0, k1) = (key(&batch.run(&r0)), key(&batch.run(&r1)));
                        if k0 != k1 {
                            rep.violation(Violation { sig: "behaviour-differs".into(), what: format!("generated parsers of a grammar and its reordered variant behave differently: {k0:?} vs {k1:?}"), replay: r.clone() });
                        }
                    }
                }
            }
        } else {
            let base = lab::scratch_root().join("c15-replay");
            if let Some(v) = repro_case(0, text, &base) {
                rep.violation(v);
            }
            let _ = std::fs::remove_dir_all(&base);
        }
    }
    if ctx.replay.is_some() {
        lab::cleanup_scratch();
        let code = rep.finish(&mut ev);
        ev.write();
        return code;
    }
    let mut runner = dice::runner(dice::mix(ctx.seed, &[dice::tag("C15")]), 1);
    let profs = [Profile::full(), Profile { repair: false, ..Profile::full() }, Profile::ebnf(), Profile { pratt: true, nodeops: true, parts: true, skips: true, choice: true, ..Profile::base("pratt-choice") }];
    // ---------- (a) reproducibility through the real binary
    let n_a = ctx.tier.pick(60, 600);
    let mut texts: Vec<String> = crate::textgen::repo_texts().into_iter().map(|x| x.1).collect();
    for (i, t) in dice::draw_trees(&mut runner, 500, n_a).into_iter().enumerate() {
        texts.push(print(&ggen::build(&profs[i % profs.len()], &t.current())).text);
    }
    let base = lab::scratch_root().join("c15");
    let pool = rayon::ThreadPoolBuilder::new().num_threads(ctx.threads).build().unwrap();
    let res_a: Vec<Option<Violation>> = pool.install(|| {
        texts
            .par_iter()
            .enumerate()
            .map(|(i, text)| repro_case(i, text, &base))
            .collect()
    });
    for v in res_a {
        ev.eval();
        ev.label("reproducibility_cases");
        if let Some(v) = v {
            rep.violation(v);
        }
    }
    // ---------- (b) declaration order
    let n_b = ctx.tier.pick(70, 700);
    let k_perm = ctx.tier.pick(3, 8);
    let mut bases = vec![];
    for (i, t) in dice::draw_trees(&mut runner, 500, n_b * 2).into_iter().enumerate() {
        let mut g = ggen::build(&Profile { shuffle_decls: false, ..profs[[0, 2, 3][i % 3]].clone() }, &t.current());
        let istream = dice::draw_trees(&mut runner, 4000, 1).pop().unwrap().current();
        // every fourth base gets a declaration-level error whose detection involves two
        // declarations (start rule named as part, a used token declared skipped, a skipped token
        // declared right): it must be rejected in every order of the declarations
        if i % 4 == 3 {
            let mut d = Dice::new(&istream);
            match d.below(3) {
                0 => g.parts.push(g.start),
                1 => {
                    if let Some(t) = (0..g.tokens.len()).find(|t| !g.skip.contains(t)) {
                        g.skip.push(t);
                    }
                }
                _ => {
                    if let Some(t) = g.skip.first().copied() {
                        g.right.push(t);
                    } else {
                        g.parts.push(g.start);
                    }
                }
            }
        }
        bases.push((g, istream));
    }
    let res_b: Vec<(Evidence, Vec<Violation>)> = pool.install(|| {
        bases
            .par_chunks(6)
            .map(|chunk| {
                let mut ev = Evidence::new("C15", ctx.tier, ctx.seed, "");
                let mut vs = vec![];
                // items: for each base its variants
                let mut items: Vec<(Grammar, String)> = vec![];
                let mut groups: Vec<(usize, usize, usize)> = vec![]; // (chunk idx, start, len)
                for (ci, (g, istream)) in chunk.iter().enumerate() {
                    let Ok((sets0, warn0, acc0)) = sets_by_id(g) else { continue };
                    if !acc0 {
                        // a rejected grammar: no order of its declarations may be accepted (that
                        // order would be an accepted grammar whose reordering changes the diagnostics)
                        let mut d = Dice::new(istream);
                        let mut flipped = false;
                        for _ in 0..k_perm + 2 {
                            let v = ggen::permute_decls(g, &mut d);
                            ev.eval();
                            ev.label("rejected_base_permutations");
                            if let Ok((_, _, true)) = sets_by_id(&v) {
                                vs.push(Violation { sig: "verdict-changes".into(), what: "a rejected grammar is accepted after reordering its declarations (i.e. an accepted grammar is rejected after reordering)".into(), replay: json!({"grammar": print(&v).text, "permuted": print(g).text}) });
                                flipped = true;
                                break;
                            }
                        }
                        if !flipped {
                            ev.exclude("rejected by lelwel in every order tried");
                        }
                        continue;
                    }
                    let start = items.len();
                    items.push((g.clone(), print(g).text));
                    let base_iface = emitted_interface(&print(g).text);
                    let mut d = Dice::new(istream);
                    for _ in 0..k_perm {
                        let v = ggen::permute_decls(g, &mut d);
                        ev.eval();
                        let text = print(&v).text;
                        if moves_list_behind_rule(&v) {
                            ev.nontrivial(&text);
                        }
                        match sets_by_id(&v) {
                            Err(p) => vs.push(Violation { sig: "panic".into(), what: format!("panic on permuted grammar: {p}"), replay: json!({"grammar": text}) }),
                            Ok((sets1, warn1, acc1)) => {
                                let replay = json!({"grammar": print(g).text, "permuted": text});
                                if !acc1 {
                                    vs.push(Violation { sig: "verdict-changes".into(), what: "an accepted grammar is rejected after reordering its declarations".into(), replay });
                                    continue;
                                }
                                if warn1 != warn0 {
                                    vs.push(Violation { sig: "warnings-differ".into(), what: format!("warnings differ after reordering declarations: {warn0:?} vs {warn1:?}"), replay });
                                    continue;
                                }
                                if sets1 != sets0 {
                                    let i = sets0.iter().zip(&sets1).position(|(a, b)| a != b).unwrap_or(0);
                                    vs.push(Violation { sig: "sets-differ".into(), what: format!("analysis sets of regex node {i} differ after reordering declarations: {} vs {}", sets0[i], sets1[i]), replay });
                                    continue;
                                }
                                // the callback interface of the emitted parser (which create / delete / predicate /
                                // action / assertion callbacks exist) is part of its behaviour
                                if let (Some((n0, l0)), Some((n1, l1))) = (base_iface.as_ref(), emitted_interface(&text).as_ref()) {
                                    ev.label("emitted_interfaces_compared");
                                    if n0 != n1 {
                                        let diff: Vec<&String> = n0.symmetric_difference(n1).collect();
                                        vs.push(Violation { sig: "callback-interface-differs".into(), what: format!("the emitted ParserCallbacks trait differs after reordering declarations: {diff:?} exist in only one of the two"), replay });
                                        continue;
                                    }
                                    if l0 != l1 {
                                        ev.label("emitted_lines_differ_as_multisets");
                                    }
                                }
                                items.push((v, text));
                            }
                        }
                    }
                    groups.push((ci, start, items.len() - start));
                }
                if items.is_empty() {
                    return (ev, vs);
                }
                let mut batch = lab::build_batch(&items, &LabOpts::default());
                for (ci, start, len) in groups {
                    if !(start..start + len).all(|k| batch.ready(k)) {
                        ev.exclude("a variant does not compile (C11 matter)");
                        continue;
                    }
                    let (g, istream) = &chunk[ci];
                    let mut d = Dice::new(istream);
                    // skip the part of the stream used by permutations is not needed: fresh inputs
                    let reqs: Vec<Req> = standard_requests(g, start, &mut d, ctx.tier.pick(40, 120), 20);
                    for r0 in reqs {
                        let base_rep = batch.run(&r0);
                        let key0 = (format!("{:?}", base_rep.status).split('(').next().unwrap_or("").to_string(), base_rep.tree.as_ref().map(|t| t.dump()), base_rep.diags.clone(), base_rep.log.iter().filter(|e| matches!(e, lab::Event::Action(..))).count(), base_rep.log.iter().filter(|e| matches!(e, lab::Event::Created(..))).count(), base_rep.log.iter().filter(|e| matches!(e, lab::Event::Deleted(..))).count());
                        for k in start + 1..start + len {
                            let mut r = r0.clone();
                            r.gi = k;
                            let rep = batch.run(&r);
                            ev.eval();
                            ev.label("behaviour_pairs");
                            let key = (format!("{:?}", rep.status).split('(').next().unwrap_or("").to_string(), rep.tree.as_ref().map(|t| t.dump()), rep.diags.clone(), rep.log.iter().filter(|e| matches!(e, lab::Event::Action(..))).count(), rep.log.iter().filter(|e| matches!(e, lab::Event::Created(..))).count(), rep.log.iter().filter(|e| matches!(e, lab::Event::Deleted(..))).count());
                            if key != key0 {
                                vs.push(Violation {
                                    sig: "behaviour-differs".into(),
                                    what: format!("generated parsers of a grammar and its reordered variant behave differently on [{}]: {:?} vs {:?}", crate::inputs::show(g, &r0.tokens), key0, key),
                                    replay: json!({"grammar": items[start].1, "permuted": items[k].1, "request": crate::labrun::req_json(g, &r0)}),
                                });
                                break;
                            }
                        }
                    }
                }
                if ev.samples.is_empty() {
                    if let Some((_, t)) = items.get(1) {
                        ev.sample(json!({"grammar": items[0].1, "permuted": t}));
                    }
                }
                (ev, vs)
            })
            .collect()
    });
    let mut per_sig: BTreeMap<String, usize> = BTreeMap::new();
    for (e, vs) in res_b {
        ev.merge(e);
        for v in vs {
            let c = per_sig.entry(v.sig.clone()).or_default();
            *c += 1;
            if *c <= 3 {
                rep.violation(v);
            }
        }
    }
    lab::cleanup_scratch();
    let code = rep.finish(&mut ev);
    ev.write();
    code
}
