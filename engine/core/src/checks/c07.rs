//! C07 — left-recursive rules parse with the declared precedence and associativity.
//! Oracle: enumerate all parse trees of the (ambiguous) operator grammar for a string and keep
//! the ones that are precedence-correct by definition; exactly one survives.

use super::Ctx;
use super::c01::sig_of;
use crate::dice::Dice;
use crate::ev::{Evidence, Tier};
use crate::ggen::Profile;
use crate::gm::*;
use crate::inputs;
use crate::interp::{self, ITree, Interp, Outcome};
use crate::lab::{Reply, Req, Status};
use crate::labrun::{self, GInfo, LabProp, Verdict};
use std::collections::BTreeMap;

#[derive(Clone, Copy, Debug, PartialEq, Eq)]
pub enum Kind {
    Infix,
    Prefix,
    Postfix,
    /// e OP e CLOSE
    Mixfix,
    /// e OP e SEP e
    Ternary,
}

#[derive(Clone, Debug)]
pub struct Branch {
    pub kind: Kind,
    pub ops: Vec<usize>,
    pub aux: Option<usize>,
    pub right: bool,
}

#[derive(Clone, Debug)]
pub struct Spec {
    pub atom: usize,
    pub lp: usize,
    pub rp: usize,
    /// operator branches, tightest first
    pub branches: Vec<Branch>,
    /// how the operator rule is embedded: 0 `s: e`, 1 `s: (e SEMI)*`, 2 `e` is the start rule,
    /// 3 `e` is a part (entry point parse_e)
    pub embed: u8,
    pub semi: Option<usize>,
}

/// Build the grammar: `s: e; e: <operator branches and atoms>`
pub fn build_grammar(d: &mut Dice<'_>, max_branches: usize) -> (Grammar, Spec) {
    let mut tokens: Vec<TokenDecl> = vec![];
    let mut tok = |name: String| -> usize {
        tokens.push(TokenDecl { name, symbol: None });
        tokens.len() - 1
    };
    let atom = tok("N".into());
    let lp = tok("LP".into());
    let rp = tok("RP".into());
    let nb = 1 + d.below(max_branches);
    let mut branches = vec![];
    let mut right = vec![];
    for b in 0..nb {
        let kind = [Kind::Infix, Kind::Infix, Kind::Prefix, Kind::Postfix, Kind::Mixfix, Kind::Ternary][d.below(6)];
        let nt = 1 + d.below(3);
        let mut ops: Vec<usize> = (0..nt).map(|i| tok(format!("O{b}x{i}"))).collect();
        // a prefix operator may reuse the token of an earlier infix branch (unary/binary minus)
        if kind == Kind::Prefix && d.chance(1, 4) {
            if let Some(prev) = branches.iter().find(|x: &&Branch| x.kind == Kind::Infix) {
                ops[0] = prev.ops[0];
            }
        }
        let aux = if matches!(kind, Kind::Mixfix | Kind::Ternary) { Some(tok(format!("X{b}"))) } else { None };
        let r = matches!(kind, Kind::Infix | Kind::Ternary) && d.chance(1, 3);
        if r {
            right.extend(ops.iter().copied());
        }
        branches.push(Branch { kind, ops, aux, right: r });
    }
    let e = Regex::Ref(1);
    let mut alts: Vec<Regex> = vec![];
    for b in &branches {
        let op = if b.ops.len() == 1 {
            Regex::Tok(b.ops[0], false)
        } else {
            Regex::Paren(Some(Box::new(Regex::Alt(b.ops.iter().map(|t| Regex::Tok(*t, false)).collect()))))
        };
        let mut items = match b.kind {
            Kind::Infix => vec![e.clone(), op, e.clone()],
            Kind::Prefix => vec![op, e.clone()],
            Kind::Postfix => vec![e.clone(), op],
            Kind::Mixfix => vec![e.clone(), op, e.clone(), Regex::Tok(b.aux.unwrap(), false)],
            Kind::Ternary => vec![e.clone(), op, e.clone(), Regex::Tok(b.aux.unwrap(), false), e.clone()],
        };
        // decorations that must not change the grouping: a leading predicate that holds (`?t`, or
        // `?n` answered with true by the harness) and a trailing semantic action
        match d.below(8) {
            // a rename (to the rule's own name) in front of the left operand
            5 if b.kind != Kind::Prefix => items.insert(0, Regex::Rename("e".into())),
            6 => items.insert(0, Regex::Pred(None)),
            7 => items.insert(0, Regex::Pred(Some(1 + alts.len() as u32))),
            _ => {}
        }
        if d.chance(1, 4) {
            items.push(Regex::Action(1 + alts.len() as u32));
        }
        alts.push(Regex::Concat(items));
    }
    // atoms at random positions
    let a1 = Regex::Tok(atom, false);
    let a2 = Regex::Concat(vec![Regex::Tok(lp, false), e.clone(), Regex::Tok(rp, false)]);
    for a in [a1, a2] {
        let pos = d.below(alts.len() + 1);
        alts.insert(pos, a);
    }
    right.sort();
    right.dedup();
    // embedding of the operator rule and an optional skipped token (drawn last, so that the
    // operator part of a grammar is stable under shrinking)
    let embed = [0u8, 1, 3][d.below(3)];
    let semi = if embed == 1 { Some(tok("SEMI".into())) } else { None };
    let ws = if d.chance(1, 3) { Some(tok("WS".into())) } else { None };
    let s_body = match embed {
        0 => Regex::Ref(1),
        1 => Regex::Star(Box::new(Regex::Paren(Some(Box::new(Regex::Concat(vec![Regex::Ref(1), Regex::Tok(semi.unwrap(), false)])))))),
        _ => Regex::Tok(atom, false),
    };
    let g = Grammar {
        tokens,
        skip: ws.into_iter().collect(),
        right,
        start: if embed == 2 { 1 } else { 0 },
        parts: match embed {
            2 => vec![0],
            3 => vec![1],
            _ => vec![],
        },
        rules: vec![Rule { name: "s".into(), elided: false, body: Some(s_body) }, Rule { name: "e".into(), elided: false, body: Some(Regex::Alt(alts)) }],
        order: None,
    };
    (g, Spec { atom, lp, rp, branches, embed, semi })
}

/// Recover the spec from the grammar model (for replays and shrunk grammars).
pub fn spec_from_grammar(g: &Grammar) -> Option<Spec> {
    let find = |n: &str| g.tokens.iter().position(|t| t.name == n);
    let (atom, lp, rp) = (find("N")?, find("LP")?, find("RP")?);
    let Some(Regex::Alt(alts)) = &g.rules.get(1)?.body else { return None };
    let mut branches = vec![];
    for a in alts {
        let Regex::Concat(items) = a else { continue };
        let items: Vec<Regex> = items.iter().filter(|r| !matches!(r, Regex::Pred(_) | Regex::Action(_) | Regex::Rename(_))).cloned().collect();
        let is_e = |r: &Regex| *r == Regex::Ref(1);
        let ops_of = |r: &Regex| -> Option<Vec<usize>> {
            match r {
                Regex::Tok(t, _) => Some(vec![*t]),
                Regex::Paren(Some(b)) => match &**b {
                    Regex::Alt(v) => v.iter().map(|x| if let Regex::Tok(t, _) = x { Some(*t) } else { None }).collect(),
                    _ => None,
                },
                _ => None,
            }
        };
        let tok_of = |r: &Regex| if let Regex::Tok(t, _) = r { Some(*t) } else { None };
        let b = match items.as_slice() {
            [l, o, r] if is_e(l) && is_e(r) => Branch { kind: Kind::Infix, ops: ops_of(o)?, aux: None, right: false },
            [o, r] if is_e(r) && !is_e(o) => Branch { kind: Kind::Prefix, ops: ops_of(o)?, aux: None, right: false },
            [l, o] if is_e(l) && !is_e(o) => Branch { kind: Kind::Postfix, ops: ops_of(o)?, aux: None, right: false },
            [l, o, m, c] if is_e(l) && is_e(m) => Branch { kind: Kind::Mixfix, ops: ops_of(o)?, aux: Some(tok_of(c)?), right: false },
            [l, o, m, c, r] if is_e(l) && is_e(m) && is_e(r) => Branch { kind: Kind::Ternary, ops: ops_of(o)?, aux: Some(tok_of(c)?), right: false },
            _ => continue,
        };
        let mut b = b;
        b.right = !b.ops.is_empty() && b.ops.iter().all(|t| g.right.contains(t)) && matches!(b.kind, Kind::Infix | Kind::Ternary);
        branches.push(b);
    }
    let semi = find("SEMI");
    let embed = if g.start == 1 {
        2
    } else if g.parts.contains(&1) {
        3
    } else if semi.is_some() && matches!(g.rules[0].body, Some(Regex::Star(_))) {
        1
    } else if g.rules[0].body == Some(Regex::Ref(1)) {
        0
    } else {
        return None;
    };
    if g.start != 0 && g.start != 1 {
        return None;
    }
    Some(Spec { atom, lp, rp, branches, embed, semi })
}

#[derive(Clone, Debug, PartialEq, Eq, Hash)]
pub enum E {
    Atom,
    Paren(Box<E>),
    /// (branch, operator token, operands)
    Op(usize, usize, Vec<E>),
}

impl E {
    fn yield_(&self, s: &Spec, out: &mut Vec<usize>) {
        match self {
            E::Atom => out.push(s.atom),
            E::Paren(x) => {
                out.push(s.lp);
                x.yield_(s, out);
                out.push(s.rp);
            }
            E::Op(b, t, xs) => match s.branches[*b].kind {
                Kind::Infix => {
                    xs[0].yield_(s, out);
                    out.push(*t);
                    xs[1].yield_(s, out);
                }
                Kind::Prefix => {
                    out.push(*t);
                    xs[0].yield_(s, out);
                }
                Kind::Postfix => {
                    xs[0].yield_(s, out);
                    out.push(*t);
                }
                Kind::Mixfix => {
                    xs[0].yield_(s, out);
                    out.push(*t);
                    xs[1].yield_(s, out);
                    out.push(s.branches[*b].aux.unwrap());
                }
                Kind::Ternary => {
                    xs[0].yield_(s, out);
                    out.push(*t);
                    xs[1].yield_(s, out);
                    out.push(s.branches[*b].aux.unwrap());
                    xs[2].yield_(s, out);
                }
            },
        }
    }
    pub fn tokens(&self, s: &Spec) -> Vec<usize> {
        let mut v = vec![];
        self.yield_(s, &mut v);
        v
    }
    /// the derivation tree lelwel should build (node per branch application)
    fn itree(&self, s: &Spec, next: &mut usize) -> ITree {
        let tok = |t: usize, next: &mut usize| {
            let i = *next;
            *next += 1;
            ITree::Tok(t, i)
        };
        match self {
            E::Atom => ITree::Node("e".into(), vec![tok(s.atom, next)]),
            E::Paren(x) => {
                let a = tok(s.lp, next);
                let m = x.itree(s, next);
                let c = tok(s.rp, next);
                ITree::Node("e".into(), vec![a, m, c])
            }
            E::Op(b, t, xs) => {
                let br = &s.branches[*b];
                let mut ch = vec![];
                match br.kind {
                    Kind::Infix => {
                        ch.push(xs[0].itree(s, next));
                        ch.push(tok(*t, next));
                        ch.push(xs[1].itree(s, next));
                    }
                    Kind::Prefix => {
                        ch.push(tok(*t, next));
                        ch.push(xs[0].itree(s, next));
                    }
                    Kind::Postfix => {
                        ch.push(xs[0].itree(s, next));
                        ch.push(tok(*t, next));
                    }
                    Kind::Mixfix => {
                        ch.push(xs[0].itree(s, next));
                        ch.push(tok(*t, next));
                        ch.push(xs[1].itree(s, next));
                        ch.push(tok(br.aux.unwrap(), next));
                    }
                    Kind::Ternary => {
                        ch.push(xs[0].itree(s, next));
                        ch.push(tok(*t, next));
                        ch.push(xs[1].itree(s, next));
                        ch.push(tok(br.aux.unwrap(), next));
                        ch.push(xs[2].itree(s, next));
                    }
                }
                ITree::Node("e".into(), ch)
            }
        }
    }
    pub fn expected_tree(&self, s: &Spec) -> ITree {
        expected_embedded(s, std::slice::from_ref(self))
    }
    fn n_ops(&self) -> usize {
        match self {
            E::Atom => 0,
            E::Paren(x) => x.n_ops(),
            E::Op(_, _, xs) => 1 + xs.iter().map(|x| x.n_ops()).sum::<usize>(),
        }
    }
}

/// the tree for a sequence of expressions under the grammar's embedding of the operator rule
pub fn expected_embedded(s: &Spec, es: &[E]) -> ITree {
    let mut n = 0;
    match s.embed {
        1 => {
            let mut ch = vec![];
            for e in es {
                ch.push(e.itree(s, &mut n));
                ch.push(ITree::Tok(s.semi.unwrap(), n));
                n += 1;
            }
            ITree::Node("s".into(), ch)
        }
        // a left-recursive start rule: the root carries the rule's name and holds the expression
        2 => ITree::Node("e".into(), vec![es[0].itree(s, &mut n)]),
        3 => ITree::Node("part".into(), vec![es[0].itree(s, &mut n)]),
        _ => ITree::Node("s".into(), vec![es[0].itree(s, &mut n)]),
    }
}

fn arity(k: Kind) -> usize {
    match k {
        Kind::Infix | Kind::Mixfix => 2,
        Kind::Prefix | Kind::Postfix => 1,
        Kind::Ternary => 3,
    }
}

/// all expression trees with exactly `n` operator nodes and exactly `p` pairs of parentheses
fn exactly(s: &Spec, n: usize, p: usize, memo: &mut BTreeMap<(usize, usize), Vec<E>>, cap: usize) -> Vec<E> {
    if let Some(v) = memo.get(&(n, p)) {
        return v.clone();
    }
    let mut out = vec![];
    if n == 0 && p == 0 {
        out.push(E::Atom);
    }
    if p > 0 {
        for x in exactly(s, n, p - 1, memo, cap) {
            if !matches!(x, E::Paren(_)) {
                out.push(E::Paren(Box::new(x)));
            }
        }
    }
    if n > 0 {
        'branches: for (bi, b) in s.branches.iter().enumerate() {
            let ar = arity(b.kind);
            // compositions of (n-1, p) over the operands
            let mut splits: Vec<Vec<(usize, usize)>> = vec![vec![]];
            for _ in 0..ar {
                let mut next = vec![];
                for sp in &splits {
                    let used_n: usize = sp.iter().map(|x| x.0).sum();
                    let used_p: usize = sp.iter().map(|x| x.1).sum();
                    for a in 0..=(n - 1 - used_n) {
                        for q in 0..=(p - used_p) {
                            let mut x = sp.clone();
                            x.push((a, q));
                            next.push(x);
                        }
                    }
                }
                splits = next;
            }
            for sp in splits {
                if sp.iter().map(|x| x.0).sum::<usize>() != n - 1 || sp.iter().map(|x| x.1).sum::<usize>() != p {
                    continue;
                }
                let lists: Vec<Vec<E>> = sp.iter().map(|(a, q)| exactly(s, *a, *q, memo, cap)).collect();
                if lists.iter().any(|l| l.is_empty()) {
                    continue;
                }
                let mut idx = vec![0usize; ar];
                'prod: loop {
                    for t in &b.ops {
                        out.push(E::Op(bi, *t, idx.iter().enumerate().map(|(k, i)| lists[k][*i].clone()).collect()));
                    }
                    if out.len() > cap {
                        break 'branches;
                    }
                    let mut k = ar;
                    loop {
                        if k == 0 {
                            break 'prod;
                        }
                        k -= 1;
                        idx[k] += 1;
                        if idx[k] < lists[k].len() {
                            break;
                        }
                        idx[k] = 0;
                    }
                }
            }
        }
    }
    memo.insert((n, p), out.clone());
    out
}

/// precedence-correct in the deep sense (see DESIGN §2.4)
pub fn correct(s: &Spec, e: &E) -> bool {
    match e {
        E::Atom => true,
        E::Paren(x) => correct(s, x),
        E::Op(b, _, xs) => {
            if !xs.iter().all(|x| correct(s, x)) {
                return false;
            }
            let br = &s.branches[*b];
            // tighter = smaller branch index
            let ok_left_operand = |l: &E| -> bool {
                // walk the right spine of the left operand over nodes open to the right
                let mut cur = l;
                loop {
                    match cur {
                        E::Op(c, _, ys) => {
                            let ck = s.branches[*c].kind;
                            let open_right = matches!(ck, Kind::Infix | Kind::Prefix | Kind::Ternary);
                            if !open_right {
                                return true;
                            }
                            let fine = *c < *b || (*c == *b && !br.right);
                            if !fine {
                                return false;
                            }
                            cur = ys.last().unwrap();
                        }
                        _ => return true,
                    }
                }
            };
            let ok_right_operand = |r: &E| -> bool {
                let mut cur = r;
                loop {
                    match cur {
                        E::Op(c, _, ys) => {
                            let ck = s.branches[*c].kind;
                            let open_left = matches!(ck, Kind::Infix | Kind::Postfix | Kind::Mixfix | Kind::Ternary);
                            if !open_left {
                                return true;
                            }
                            let fine = *c < *b || (*c == *b && br.right);
                            if !fine {
                                return false;
                            }
                            cur = &ys[0];
                        }
                        _ => return true,
                    }
                }
            };
            match br.kind {
                Kind::Infix => ok_left_operand(&xs[0]) && ok_right_operand(&xs[1]),
                Kind::Prefix => ok_right_operand(&xs[0]),
                Kind::Postfix => ok_left_operand(&xs[0]),
                Kind::Mixfix => ok_left_operand(&xs[0]),
                Kind::Ternary => ok_left_operand(&xs[0]) && ok_right_operand(&xs[2]),
            }
        }
    }
}

/// Groups all enumerated trees by their token string; the correct tree of a string is the
/// unique precedence-correct member of its group.
pub fn oracle_table(s: &Spec, max_ops: usize, max_parens: usize, cap: usize) -> (BTreeMap<Vec<usize>, Vec<E>>, bool) {
    let mut memo = BTreeMap::new();
    let mut groups: BTreeMap<Vec<usize>, Vec<E>> = BTreeMap::new();
    let mut complete = true;
    let mut total = 0;
    for n in 0..=max_ops {
        for p in 0..=max_parens {
            let v = exactly(s, n, p, &mut memo, cap);
            total += v.len();
            if v.len() >= cap || total > cap * 4 {
                complete = false;
            }
            for e in v {
                groups.entry(e.tokens(s)).or_default().push(e);
            }
            if !complete {
                return (groups, false);
            }
        }
    }
    (groups, complete)
}

type Groups = BTreeMap<Vec<usize>, Vec<E>>;

struct TreeCache {
    key: u64,
    memo: BTreeMap<(usize, usize), Vec<E>>,
    groups: BTreeMap<(usize, usize), Groups>,
}

thread_local! {
    /// all trees of the grammar a thread is currently judging, grouped by token string
    /// (requests of one grammar are judged in a row, so one entry is enough)
    static TREES: std::cell::RefCell<TreeCache> = std::cell::RefCell::new(TreeCache { key: 0, memo: BTreeMap::new(), groups: BTreeMap::new() });
}

/// all parse trees (of the ambiguous expression grammar) with `n_ops` operator applications and
/// `n_par` pairs of parentheses whose yield is `piece`
fn trees_of(g: &Grammar, s: &Spec, n_ops: usize, n_par: usize, piece: &[usize]) -> Vec<E> {
    let key = crate::ev::hash64(&format!("{g:?}"));
    TREES.with(|c| {
        let mut c = c.borrow_mut();
        if c.key != key {
            *c = TreeCache { key, memo: BTreeMap::new(), groups: BTreeMap::new() };
        }
        if !c.groups.contains_key(&(n_ops, n_par)) {
            let v = exactly(s, n_ops, n_par, &mut c.memo, 200_000);
            let mut gr: Groups = BTreeMap::new();
            for e in v {
                gr.entry(e.tokens(s)).or_default().push(e);
            }
            c.groups.insert((n_ops, n_par), gr);
        }
        c.groups[&(n_ops, n_par)].get(piece).cloned().unwrap_or_default()
    })
}

pub struct P07;

const RULE: &str = "grammars `s: e; e: <1-5 operator branches> | N | LP e RP` from choice streams: branch kinds infix, prefix, postfix, mixfix-postfix (e OP e CLOSE), ternary (e OP e SEP e), 1-3 operator tokens per branch written as token or parenthesised alternation, any subset of infix/ternary branches declared `right` (never mixed inside a branch), atoms at random positions among the branches, prefix operators optionally sharing the token of an infix branch, a quarter of the branches with a leading predicate that holds (`?t` or `?n` answered true) and a quarter with a trailing action; inputs: ALL operator expressions with up to k operator applications and up to 1 pair of parentheses (k = 4 quick, 5-6 thorough; capped per grammar, cap reported), as token strings. Oracle: all parse trees of the ambiguous expression grammar for the string are enumerated and filtered by the definition of precedence-correctness (right spine of a left operand / left spine of a right operand); exactly one survives and must equal the reply tree; zero diagnostics. The interpreter's precedence climbing is cross-checked against the same oracle (self-check). non-trivial = expression with >= 2 operators of one branch, or of two branches in the textual order looser-first, or a prefix/postfix operator next to an infix one (approximated: >= 2 operator applications); distinct = (grammar, expression)";

impl LabProp for P07 {
    fn id(&self) -> &'static str {
        "C07"
    }
    fn rule(&self) -> &'static str {
        RULE
    }
    fn profiles(&self, _t: Tier) -> Vec<Profile> {
        vec![Profile::base("pratt-spec-small"), Profile::base("pratt-spec")]
    }
    fn n_grammars(&self, t: Tier) -> usize {
        t.pick(300, 3000)
    }
    fn build(&self, prof: &Profile, stream: &[u32]) -> Option<Grammar> {
        let mut d = Dice::new(stream);
        Some(build_grammar(&mut d, if prof.name == "pratt-spec-small" { 2 } else { 5 }).0)
    }
    fn domain(&self, g: &Grammar, _i: &GInfo) -> Result<(), &'static str> {
        if spec_from_grammar(g).is_none() { Err("not an operator grammar of the C07 family") } else { Ok(()) }
    }
    fn requests(&self, g: &Grammar, _i: &GInfo, gi: usize, d: &mut Dice<'_>, t: Tier) -> Vec<Req> {
        let s = spec_from_grammar(g).unwrap();
        let k = t.pick(if s.branches.len() <= 2 { 5 } else { 4 }, if s.branches.len() <= 2 { 7 } else { 5 });
        let (groups, _) = oracle_table(&s, k, 1, t.pick(6000, 40000));
        let budget = t.pick(700, 4000);
        let keys: Vec<&Vec<usize>> = groups.keys().collect();
        let mut out = vec![];
        if keys.len() <= budget {
            for kx in keys {
                out.push(Req::new(gi, kx.clone()));
            }
        } else {
            for _ in 0..budget {
                out.push(Req::new(gi, keys[d.below(keys.len())].clone()));
            }
        }
        // embeddings: statement sequences `e SEMI e SEMI ...`, entry point of the part
        if s.embed == 1 {
            let semi = s.semi.unwrap();
            let singles: Vec<Vec<usize>> = out.iter().map(|r| r.tokens.clone()).collect();
            for (i, r) in out.iter_mut().enumerate() {
                let mut t = vec![];
                let n = 1 + i % 3;
                for k in 0..n {
                    let pick = if k == 0 { r.tokens.clone() } else { singles[d.below(singles.len())].clone() };
                    if t.len() + pick.len() > 40 {
                        break;
                    }
                    t.extend(pick);
                    t.push(semi);
                }
                r.tokens = t;
            }
            out.push(Req::new(gi, vec![]));
        }
        for (i, r) in out.iter_mut().enumerate() {
            r.enc = (i % 2) as u8;
            // every `?n` holds
            r.pmode = 1;
            if s.embed == 3 {
                r.entry = 1;
            }
            // skipped tokens anywhere must not change the grouping
            if !g.skip.is_empty() && i % 3 == 0 {
                r.tokens = inputs::sprinkle(&r.tokens, g, d, 3, false);
            }
        }
        out
    }
    fn judge(&self, g: &Grammar, info: &GInfo, req: &Req, rep: &Reply, _m: &mut dyn FnMut(&Req) -> Reply, ev: &mut Evidence) -> Verdict {
        if rep.status != Status::Ok {
            ev.exclude("parse did not return (C03 matter)");
            return Ok(());
        }
        let s = spec_from_grammar(g).unwrap();
        let toks = inputs::strip_trivia(&req.tokens, g);
        // the expressions of the input (one, or one per statement)
        let pieces: Vec<Vec<usize>> = match s.semi {
            Some(semi) if s.embed == 1 => toks.split(|t| *t == semi).filter(|p| !p.is_empty()).map(|p| p.to_vec()).collect(),
            _ => vec![toks.clone()],
        };
        if s.embed == 1 && toks.last().is_some_and(|t| Some(*t) != s.semi) {
            // (shrunk inputs) a statement list must end with the separator to be a sentence
            ev.exclude("input is no sentence of the embedding");
            return Ok(());
        }
        if s.embed == 1 && toks.windows(2).any(|w| Some(w[0]) == s.semi && Some(w[1]) == s.semi) || (s.embed == 1 && toks.first().is_some_and(|t| Some(*t) == s.semi)) {
            ev.exclude("input is no sentence of the embedding");
            return Ok(());
        }
        let mut chosen: Vec<E> = vec![];
        let mut all_len = 0;
        for piece in &pieces {
            // all trees of this very string: enumerate with the operator count of the string
            let n_ops = piece.iter().filter(|t| s.branches.iter().any(|b| b.ops.contains(t))).count();
            let n_par = piece.iter().filter(|t| **t == s.lp).count();
            let all: Vec<E> = trees_of(g, &s, n_ops, n_par, piece);
            let good: Vec<&E> = all.iter().filter(|e| correct(&s, e)).collect();
            if good.len() != 1 {
                ev.exclude(&format!("INTERNAL: oracle finds {} precedence-correct trees", good.len()));
                ev.label("internal_oracle_not_unique");
                return Ok(());
            }
            all_len += all.len();
            chosen.push(good[0].clone());
        }
        let all = vec![(); all_len];
        let expected = expected_embedded(&s, &chosen);
        if chosen.iter().any(|e| e.n_ops() >= 2) {
            ev.nontrivial(&format!("{:?}{:?}", g, req.tokens));
        }
        ev.label(&format!("embedding:{}", ["s: e", "s: (e SEMI)*", "start e", "part e"][s.embed as usize]));
        if toks.len() != req.tokens.len() {
            ev.label("with_skipped_tokens");
        }
        ev.label_n("trees_enumerated", all.len() as u64);
        // self-check of the interpreter's precedence climbing
        let never = |_: &str, _: u32, _: usize| false;
        let entry_rule = if req.entry == 0 { g.start } else { g.parts[req.entry - 1] };
        if let Outcome::Accept { tree, .. } = Interp::new(g, info, &toks, req.entry, &never).run(entry_rule, req.entry != 0) {
            if tree != expected {
                ev.label("internal_interpreter_disagrees_with_enumerator");
                ev.exclude("INTERNAL: interpreter disagrees with enumerator");
            } else {
                ev.label("interpreter_selfcheck_ok");
            }
        } else {
            ev.label(&format!("internal_interpreter_rejects:embed{}", s.embed));
        }
        if !rep.diags.is_empty() {
            return Err((sig_of("spurious", &rep.diags[0].2), format!("valid expression [{}] (entry {}) draws {:?}", inputs::show(g, &req.tokens), req.entry, rep.diags[0])));
        }
        let got = interp::strip_reply_tree(g, rep.tree.as_ref().unwrap());
        if got != expected {
            let kinds: Vec<String> = s.branches.iter().map(|b| format!("{:?}{}", b.kind, if b.right { "(right)" } else { "" })).collect();
            return Err((
                "wrong-grouping".into(),
                format!("expression [{}]: parser built {} but precedence and associativity prescribe {} (branches, tightest first: {:?})", inputs::show(g, &req.tokens), got.dump(g), expected.dump(g), kinds),
            ));
        }
        Ok(())
    }
}

pub fn run07(ctx: &Ctx) -> i32 {
    labrun::main_lab(&P07, ctx)
}
