//! C14 — recovery sets are the dominator-follow sets the documentation defines.

use super::Ctx;
use crate::alab::{self, Analysis, EPS};
use crate::enumr::{self, Family};
use crate::ev::{Evidence, Report, Violation};
use crate::ggen::{self, Profile};
use crate::gm::*;
use crate::prop;
use crate::refan::{self, TS};
use serde_json::json;
use std::collections::BTreeSet;

const RULE: &str = "accepted reduced grammars: bounded-exhaustive small families filtered by lelwel's acceptance plus random grammars (profiles ebnf, full, pratt, parts, choice) with rules referenced from several places, recursion, empty rules. Oracle: for every *, +, [] in a rule reachable from the start rule or a part, recovery == union of reference follow sets of its dominators (dominators by deletion: remove a node, test reachability, on a graph built from the grammar model) minus first(body) minus follow(body); and the end marker of every entry point that reaches the loop is in follow U recovery. non-trivial = some loop is reached along >= 2 paths (its dominators are a strict subset of its ancestors through references) or lies on a recursive cycle; distinct = printed grammar text";

fn nontrivial(g: &Grammar, a: &Analysis) -> bool {
    // a rule with loops referenced from >= 2 places, or recursion
    let mut refs = vec![0usize; g.rules.len()];
    for n in &a.flat.nodes {
        if let K::Ref(r) = n.kind {
            refs[r] += 1;
        }
    }
    let has_loop = |r: usize| g.rules[r].body.as_ref().is_some_and(|b| b.any(&|x| matches!(x, Regex::Star(_) | Regex::Plus(_) | Regex::Opt(_))));
    let multi = (0..g.rules.len()).any(|r| refs[r] >= 2 && has_loop(r));
    let rec = g.rules.iter().enumerate().any(|(i, r)| r.body.as_ref().is_some_and(|b| b.any(&|x| matches!(x, Regex::Ref(k) if *k <= i))) && has_loop(i));
    multi || rec
}

pub fn check_grammar(g: &Grammar, ev: &mut Evidence, origin: &str) -> Result<bool, Violation> {
    ev.eval();
    let a = match alab::analyse(g) {
        Ok(a) => a,
        Err(p) => return Err(Violation { sig: format!("panic:{}", p.split(" at ").last().unwrap_or("")), what: format!("semantic pass panicked: {p}"), replay: json!({"grammar": print(g).text, "origin": origin}) }),
    };
    if !refan::is_reduced(g) {
        ev.exclude("not reduced");
        return Ok(false);
    }
    if !a.run.accepted || a.run.syntax_diag_count > 0 {
        ev.exclude("rejected by lelwel");
        return Ok(false);
    }
    let text = &a.printed.text;
    let dom = refan::dominators_by_deletion(g, &a.flat);
    let reach_start = refan::reachable_rules(g, false);
    let reach_all = refan::reachable_rules(g, true);
    let mut loops = 0;
    let n_tok = g.tokens.len();
    let is_marker = |x: &String| x.starts_with("EOF") && x != "EOF" && !g.tokens.iter().take(n_tok).any(|t| &t.name == x);
    for (id, node) in a.flat.nodes.iter().enumerate() {
        if !matches!(node.kind, K::Star | K::Plus | K::Opt) || !reach_all[node.rule] {
            continue;
        }
        loops += 1;
        let body = node.children[0];
        let span = a.printed.spans[id];
        let got = a.run.sets.get(&span).and_then(|s| s.recovery.clone());
        let Some(doms) = &dom[id] else {
            // reachable only through a part's callee: the documentation's graph does not reach it
            match got {
                None => {
                    return Err(Violation {
                        sig: "missing:part-only".into(),
                        what: format!("no recovery set for `{}` in rule `{}` (reachable from a part but not in the dominator graph)", alab::node_text(&a, id), g.rules[node.rule].name),
                        replay: json!({"grammar": text, "origin": origin, "node_span": span}),
                    });
                }
                Some(_) => continue,
            }
        };
        let mut u_hi = TS::default();
        let mut u_lo = TS::default();
        for d in doms {
            u_hi = u_hi.union(&a.sets.follow[*d]);
            u_lo = u_lo.union(&a.strict.follow[*d]);
        }
        let hi = u_hi.minus(&a.sets.first[body]).minus(&a.strict.follow[body]);
        let lo = u_lo.minus(&a.sets.first[body]).minus(&a.sets.follow[body]);
        let hi_n = a.names(g, &hi);
        let lo_n = a.names(g, &lo);
        let core = |s: &BTreeSet<String>| -> BTreeSet<String> { s.iter().filter(|x| !is_marker(x) && x.as_str() != EPS).cloned().collect() };
        let ok = match &got {
            None => false,
            Some(got) => core(got) == core(&hi_n) && lo_n.iter().all(|x| got.contains(x)) && got.iter().filter(|x| x.as_str() != EPS).all(|x| hi_n.contains(x)),
        };
        if !ok {
            return Err(Violation {
                sig: format!("recovery:{}", node.kind.name()),
                what: format!("recovery set of `{}`: expected {:?} (dominators {:?}), lelwel has {:?}", alab::node_text(&a, id), hi_n, doms.iter().map(|d| alab::node_text(&a, *d)).collect::<Vec<_>>(), got),
                replay: json!({"grammar": text, "origin": origin, "node_span": span, "expected": hi_n, "got": got}),
            });
        }
        // second clause: the end marker of each entry that reaches this loop
        let got_follow = a.run.sets.get(&span).and_then(|s| s.follow.clone()).unwrap_or_default();
        let all: BTreeSet<String> = got_follow.union(got.as_ref().unwrap()).cloned().collect();
        let mut need = vec![];
        if reach_start[node.rule] {
            need.push("EOF".to_string());
        }
        for (pi, p) in g.parts.iter().enumerate() {
            let mut gp = g.clone();
            gp.start = *p;
            gp.parts.clear();
            if refan::reachable_rules(&gp, false)[node.rule] {
                need.push(refan::term_name(g, refan::part_eof_index(g, pi)));
            }
        }
        for m in need {
            if !all.contains(&m) {
                return Err(Violation {
                    sig: format!("eof-missing:{}", node.kind.name()),
                    what: format!("end marker {m} is neither in follow nor in recovery of `{}`", alab::node_text(&a, id)),
                    replay: json!({"grammar": text, "origin": origin, "node_span": span, "marker": m}),
                });
            }
        }
    }
    if loops > 0 {
        ev.label("with_loops");
        if nontrivial(g, &a) {
            ev.nontrivial(text);
        }
    }
    for l in g.feature_labels() {
        ev.label(l);
    }
    if ev.samples.len() < 4 && loops > 0 && ev.evaluations % 499 == 1 {
        ev.sample(json!({"grammar": text, "origin": origin, "loops": loops}));
    }
    Ok(true)
}

pub fn profiles() -> Vec<Profile> {
    vec![
        Profile::ebnf(),
        Profile { max_rules: 7, empty_rules: true, ..Profile::ebnf() },
        Profile::full(),
        Profile { pratt: true, parts: true, choice: true, ..Profile::base("pratt-choice") },
        Profile { max_rules: 16, max_tokens: 8, depth: 2, name: "big", ..Profile::full() },
    ]
}

pub fn run(ctx: &Ctx) -> i32 {
    let mut ev = Evidence::new("C14", ctx.tier, ctx.seed, RULE);
    let mut rep = Report::new("C14");
    let files = match &ctx.replay {
        Some(p) => vec![p.clone()],
        None => super::replay_files("C14"),
    };
    for f in files {
        let v: serde_json::Value = serde_json::from_str(&std::fs::read_to_string(&f).unwrap()).unwrap();
        if let Some(g) = crate::lw::import(v["replay"]["grammar"].as_str().unwrap_or("")) {
            if let Err(v) = check_grammar(&g, &mut ev, "replay") {
                rep.violation(v);
            }
            ev.label("replayed");
        }
    }
    if ctx.replay.is_some() {
        ev.write();
        return rep.finish(&mut ev);
    }
    let f = |rules, tokens, size, extended| Family { rules, tokens, size, extended };
    let fams: Vec<Family> = ctx.tier.pick(
        vec![f(2, 2, 7, false), f(3, 2, 6, false), f(2, 3, 6, false), f(2, 2, 6, true)],
        vec![f(2, 2, 8, false), f(3, 2, 7, false), f(2, 3, 7, false), f(3, 3, 6, false), f(2, 2, 7, true)],
    );
    for fam in &fams {
        let shards = ctx.threads;
        let outs: Vec<(Evidence, Vec<Violation>, u64)> = std::thread::scope(|s| {
            let hs: Vec<_> = (0..shards)
                .map(|sh| {
                    let (tier, seed) = (ctx.tier, ctx.seed);
                    s.spawn(move || {
                        let mut ev = Evidence::new("C14", tier, seed, "");
                        let mut vs = vec![];
                        let n = enumr::for_each(*fam, sh, shards, &mut |g| {
                            if let Err(v) = check_grammar(g, &mut ev, "exhaustive") {
                                if vs.len() < 50 {
                                    vs.push(v);
                                }
                            }
                        });
                        (ev, vs, n)
                    })
                })
                .collect();
            hs.into_iter().map(|h| h.join().unwrap()).collect()
        });
        let mut total = 0;
        for (e, vs, n) in outs {
            ev.merge(e);
            total += n;
            for v in vs {
                rep.violation(v);
            }
        }
        ev.label_n(&format!("exhaustive:{fam:?}"), total);
    }
    ev.exhaustive = Some(false);
    ev.set("exhaustive_subspaces", json!(fams.iter().map(|f| format!("{f:?}")).collect::<Vec<_>>()));
    let cases = ctx.tier.pick(400_000u32, 2_000_000u32);
    for p in profiles() {
        let out = prop::run_prop("C14", ctx.tier, ctx.seed, p.name, cases / 5, ctx.threads, if p.name == "big" { 900 } else { 400 }, |stream, ev| {
            let g = ggen::build(&p, stream);
            check_grammar(&g, ev, p.name).map(|_| ())
        });
        ev.merge(out.ev);
        for v in out.violations.into_iter().chain(out.known_hits) {
            rep.violation(v);
        }
    }
    crate::fuzzstage::maybe(ctx, "C14", &mut ev, &mut rep);
    let code = rep.finish(&mut ev);
    ev.write();
    code
}
