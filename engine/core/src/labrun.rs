//! Generic driver for properties decided in the parser lab: generate grammars from proptest
//! choice streams, batch-compile the emitted parsers, run generated inputs, judge replies,
//! shrink failures (input by delta debugging against the live runner, grammar by proptest's
//! simplify/complicate on its choice stream), write replay files.

use crate::checks::Ctx;
use crate::dice::{self, Dice};
use crate::ev::{Evidence, Report, Tier, Violation};
use crate::ggen::{self, Profile};
use crate::gm::*;
use crate::inputs::{self, Sampler};
use crate::lab::{self, Batch, LabOpts, ModState, Reply, Req};
use crate::refan::{self, Bnf, RefSets};
use proptest::strategy::ValueTree;
use rayon::prelude::*;
use serde_json::{Value, json};

pub struct GInfo {
    pub flat: Flat,
    pub bnf: Bnf,
    pub sets: RefSets,
    pub reduced: bool,
    pub productive: Vec<bool>,
    /// Earley recogniser per entry point (0 = start rule, 1 + i = part i)
    pub earley: Vec<crate::earley::Earley>,
}

impl GInfo {
    pub fn new(g: &Grammar) -> GInfo {
        let flat = Flat::new(g);
        let bnf = refan::build_bnf(g, &flat);
        let sets = refan::ref_sets(&bnf);
        let mut earley = vec![crate::earley::Earley::new(&bnf, &sets, bnf.body_nt[g.start])];
        for p in &g.parts {
            earley.push(crate::earley::Earley::new(&bnf, &sets, bnf.body_nt[*p]));
        }
        GInfo { reduced: refan::is_reduced(g), productive: refan::productive_rules(g), flat, bnf, sets, earley }
    }
}

pub type Verdict = Result<(), (String, String)>;

pub trait LabProp: Sync {
    fn id(&self) -> &'static str;
    fn rule(&self) -> &'static str;
    fn profiles(&self, tier: Tier) -> Vec<Profile>;
    fn n_grammars(&self, tier: Tier) -> usize;
    fn domain(&self, _g: &Grammar, _info: &GInfo) -> Result<(), &'static str> {
        Ok(())
    }
    fn requests(&self, g: &Grammar, info: &GInfo, gi: usize, d: &mut Dice<'_>, tier: Tier) -> Vec<Req>;
    /// judge one reply; may need to run further requests (metamorphic / differential)
    fn judge(&self, g: &Grammar, info: &GInfo, req: &Req, rep: &Reply, more: &mut dyn FnMut(&Req) -> Reply, ev: &mut Evidence) -> Verdict;
    /// extra grammars that are not generated from streams (e.g. repository grammars)
    fn extra_grammars(&self, _tier: Tier) -> Vec<(Grammar, &'static str)> {
        vec![]
    }
    fn batch_size(&self) -> usize {
        24
    }
    /// custom grammar builder (default: the general generator)
    fn build(&self, _prof: &Profile, _stream: &[u32]) -> Option<Grammar> {
        None
    }
    /// optional rewrite applied to every generated grammar before anything else (e.g. probes)
    fn transform(&self, _g: &Grammar) -> Option<Grammar> {
        None
    }
}

#[derive(Clone)]
pub struct Found {
    pub case: usize,
    pub req: Req,
    pub sig: String,
    pub what: String,
}

pub struct CaseIn {
    pub g: Grammar,
    pub text: String,
    pub profile: &'static str,
    pub istream: Vec<u32>,
}

pub fn req_json(g: &Grammar, req: &Req) -> Value {
    json!({"entry": req.entry, "seed": req.seed, "enc": req.enc, "pmode": req.pmode, "amode": req.amode, "smode": req.smode,
        "tokens": req.tokens.iter().map(|t| if *t == lab::ERROR_KIND { "Error".to_string() } else { g.tokens[*t].name.clone() }).collect::<Vec<_>>(),
        "base": req.base.as_ref().map(|b| b.iter().map(|t| if *t == lab::ERROR_KIND { "Error".to_string() } else { g.tokens[*t].name.clone() }).collect::<Vec<_>>())})
}

pub fn req_from_json(g: &Grammar, v: &Value) -> Option<Req> {
    let n = |k: &str| v[k].as_u64().unwrap_or(0);
    let tokens = v["tokens"].as_array()?.iter().map(|t| {
        let name = t.as_str().unwrap_or("");
        if name == "Error" { Some(lab::ERROR_KIND) } else { g.tokens.iter().position(|x| x.name == name) }
    }).collect::<Option<Vec<_>>>()?;
    let base = match v["base"].as_array() {
        Some(a) => Some(a.iter().map(|t| {
            let name = t.as_str().unwrap_or("");
            if name == "Error" { Some(lab::ERROR_KIND) } else { g.tokens.iter().position(|x| x.name == name) }
        }).collect::<Option<Vec<_>>>()?),
        None => None,
    };
    Some(Req { gi: 0, entry: n("entry") as usize, seed: n("seed"), enc: n("enc") as u8, pmode: n("pmode") as u8, amode: n("amode") as u8, smode: n("smode") as u8, tokens, base })
}

/// Process one batch of cases: returns evidence and findings.
fn process_batch(p: &dyn LabProp, tier: Tier, seed: u64, cases: &[(usize, &CaseIn)], known: &dyn Fn(&str) -> bool) -> (Evidence, Vec<Found>, Option<String>) {
    let mut ev = Evidence::new(p.id(), tier, seed, "");
    let mut found = vec![];
    let mut items = vec![];
    let mut infos = vec![];
    let mut idx = vec![];
    for (ci, c) in cases {
        let info = GInfo::new(&c.g);
        ev.label("grammars_generated");
        if let Err(why) = p.domain(&c.g, &info) {
            ev.exclude(&format!("domain: {why}"));
            continue;
        }
        items.push((c.g.clone(), c.text.clone()));
        infos.push(info);
        idx.push(*ci);
    }
    if items.is_empty() {
        return (ev, found, None);
    }
    let mut batch = lab::build_batch(&items, &LabOpts::default());
    if let Some(e) = &batch.infra_error {
        return (ev, found, Some(e.clone()));
    }
    for k in 0..items.len() {
        let c = cases.iter().find(|(ci, _)| *ci == idx[k]).unwrap().1;
        match &batch.states[k] {
            ModState::Ready => {}
            ModState::Rejected(d) => {
                let code = d.iter().find(|x| x.error).and_then(|x| x.code.clone()).unwrap_or_else(|| "syntax".into());
                ev.exclude(&format!("rejected by lelwel ({code})"));
                ev.label(&format!("rejected:{}", c.profile));
                continue;
            }
            ModState::Panicked(m) => {
                ev.exclude(&format!("lelwel panicked (C11/C12 matter): {}", m.split(" at ").last().unwrap_or("")));
                continue;
            }
            ModState::CompileFailed(errs) => {
                ev.exclude(&format!("emitted parser does not compile (C11 matter): {}", errs.first().map(|e| e.code.clone()).unwrap_or_default()));
                continue;
            }
            ModState::Skipped(w) => {
                ev.exclude(w);
                continue;
            }
        }
        if !batch.ready(k) {
            continue;
        }
        ev.label("grammars_accepted");
        ev.label(&format!("accepted:{}", c.profile));
        for l in c.g.feature_labels() {
            ev.label(&format!("feature:{l}"));
        }
        let mut d = Dice::new(&c.istream);
        let reqs = p.requests(&c.g, &infos[k], k, &mut d, tier);
        let mut first_sig_for_case = std::collections::BTreeSet::new();
        for req in reqs {
            ev.eval();
            let rep = batch.run(&req);
            let verdict = {
                let b = &mut batch;
                let mut more = |r: &Req| b.run(r);
                p.judge(&c.g, &infos[k], &req, &rep, &mut more, &mut ev)
            };
            if ev.samples.len() < 3 && ev.evaluations % 211 == 7 {
                ev.sample(json!({"grammar": c.text, "request": req_json(&c.g, &req), "status": format!("{:?}", rep.status), "diagnostics": rep.diags.len(), "tree": rep.tree.as_ref().map(|t| t.dump())}));
            }
            if let Err((sig, what)) = verdict {
                if known(&sig) {
                    ev.label(&format!("known:{sig}"));
                    if first_sig_for_case.insert(sig.clone()) {
                        found.push(Found { case: idx[k], req: req.clone(), sig, what });
                    }
                } else if first_sig_for_case.insert(sig.clone()) {
                    found.push(Found { case: idx[k], req: req.clone(), sig, what });
                }
            }
        }
    }
    (ev, found, None)
}

/// Re-evaluate (grammar, request): Some(verdict) if the grammar is in the domain and compiles.
pub fn eval_single(p: &dyn LabProp, g: &Grammar, text: &str, reqs: &[Req], tier: Tier) -> Option<Vec<(Req, Verdict)>> {
    let info = GInfo::new(g);
    if p.domain(g, &info).is_err() {
        return None;
    }
    let mut batch = lab::build_batch(&[(g.clone(), text.to_string())], &LabOpts::default());
    if !batch.ready(0) {
        return None;
    }
    let mut ev = Evidence::new(p.id(), tier, 0, "");
    let mut out = vec![];
    for r in reqs {
        let mut r = r.clone();
        r.gi = 0;
        let rep = batch.run(&r);
        let b = &mut batch;
        let mut more = |q: &Req| b.run(q);
        let v = p.judge(g, &info, &r, &rep, &mut more, &mut ev);
        out.push((r, v));
    }
    Some(out)
}

/// delta-debug the token list of a failing request against a live single-grammar batch
fn shrink_input(p: &dyn LabProp, g: &Grammar, text: &str, req: &Req, known: &dyn Fn(&str) -> bool, tier: Tier) -> (Req, String, String) {
    let info = GInfo::new(g);
    let mut batch = lab::build_batch(&[(g.clone(), text.to_string())], &LabOpts::default());
    let mut ev = Evidence::new(p.id(), tier, 0, "");
    let mut best = req.clone();
    best.gi = 0;
    let mut check = |r: &Req, batch: &mut Batch| -> Option<(String, String)> {
        let rep = batch.run(r);
        let mut more = |q: &Req| batch.run(q);
        match p.judge(g, &info, r, &rep, &mut more, &mut ev) {
            Err((s, w)) if !known(&s) => Some((s, w)),
            _ => None,
        }
    };
    if !batch.ready(0) {
        return (best, String::new(), String::new());
    }
    let Some((mut sig, mut what)) = check(&best, &mut batch) else { return (best, String::new(), String::new()) };
    // shrinking must stay on the failure it started from
    let sig0 = sig.clone();
    let mut check = |r: &Req, batch: &mut Batch| check(r, batch).filter(|(s, _)| *s == sig0);
    let mut chunk = (best.tokens.len() / 2).max(1);
    while chunk >= 1 && !best.tokens.is_empty() && best.base.is_none() {
        let mut i = 0;
        let mut progressed = false;
        while i < best.tokens.len() {
            let mut cand = best.clone();
            let end = (i + chunk).min(cand.tokens.len());
            cand.tokens.drain(i..end);
            if let Some((s, w)) = check(&cand, &mut batch) {
                best = cand;
                sig = s;
                what = w;
                progressed = true;
            } else {
                i += chunk;
            }
        }
        if chunk == 1 && !progressed {
            break;
        }
        if !progressed {
            chunk /= 2;
        }
    }
    // simplify modes
    for f in [|r: &mut Req| r.enc = 0, |r: &mut Req| r.smode = 0, |r: &mut Req| r.amode = 0, |r: &mut Req| r.pmode = 1] {
        let mut cand = best.clone();
        f(&mut cand);
        if let Some((s, w)) = check(&cand, &mut batch) {
            best = cand;
            sig = s;
            what = w;
        }
    }
    (best, sig, what)
}

/// Grammar-level delta debugging (see `gshrink`): rounds of one-step simplifications, each round
/// compiled as batches; a candidate is taken if the same request still fails with the same
/// signature. Returns the reduced grammar, its text and the (remapped) request.
fn shrink_grammar(p: &dyn LabProp, g: &Grammar, req: &Req, sig: &str, tier: Tier, max_rounds: usize) -> (Grammar, String, Req, Option<String>) {
    let mut best_g = g.clone();
    let mut best_req = req.clone();
    best_req.gi = 0;
    let mut best_what: Option<String> = None;
    let entry_name = |g: &Grammar, r: &Req| if r.entry == 0 { None } else { g.parts.get(r.entry - 1).map(|x| g.rules[*x].name.clone()) };
    let started = std::time::Instant::now();
    for _round in 0..max_rounds {
        if started.elapsed().as_secs() > 240 {
            break;
        }
        let want_entry = entry_name(&best_g, &best_req);
        let mut cands: Vec<(Grammar, String, GInfo, Req)> = vec![];
        for c in crate::gshrink::candidates(&best_g) {
            if c.size() > best_g.size() {
                continue;
            }
            let ok = std::panic::catch_unwind(std::panic::AssertUnwindSafe(|| {
                let info = GInfo::new(&c);
                if p.domain(&c, &info).is_err() {
                    return None;
                }
                let mut r = best_req.clone();
                if best_req.entry > 0 {
                    let name = want_entry.clone()?;
                    r.entry = 1 + c.parts.iter().position(|x| c.rules[*x].name == name)?;
                }
                Some((info, r))
            }));
            if let Ok(Some((info, r))) = ok {
                let text = print(&c).text;
                cands.push((c, text, info, r));
            }
        }
        let mut progressed = false;
        for chunk in cands.chunks(32) {
            let items: Vec<(Grammar, String)> = chunk.iter().map(|c| (c.0.clone(), c.1.clone())).collect();
            let mut batch = lab::build_batch(&items, &LabOpts::default());
            if batch.infra_error.is_some() {
                continue;
            }
            let mut ev = Evidence::new(p.id(), tier, 0, "");
            for (k, (cg, _, info, r)) in chunk.iter().enumerate() {
                if !batch.ready(k) {
                    continue;
                }
                let mut r = r.clone();
                r.gi = k;
                let rep = batch.run(&r);
                let b = &mut batch;
                let mut more = |q: &Req| b.run(q);
                let verdict = std::panic::catch_unwind(std::panic::AssertUnwindSafe(|| p.judge(cg, info, &r, &rep, &mut more, &mut ev)));
                if let Ok(Err((s, w))) = verdict {
                    if s == sig {
                        best_g = cg.clone();
                        best_req = r.clone();
                        best_req.gi = 0;
                        best_what = Some(w);
                        progressed = true;
                        break;
                    }
                }
            }
            if progressed {
                break;
            }
        }
        if !progressed {
            break;
        }
    }
    // cosmetic last step: drop the tokens nothing refers to (renumbers tokens: verified by a re-run)
    if best_what.is_some() {
        let mut keep: Vec<usize> = best_req.tokens.iter().copied().filter(|t| *t != lab::ERROR_KIND).collect();
        if let Some(b) = &best_req.base {
            keep.extend(b.iter().copied().filter(|t| *t != lab::ERROR_KIND));
        }
        let (g2, map) = crate::gshrink::drop_unused_tokens(&best_g, &keep);
        if g2.tokens.len() < best_g.tokens.len() {
            let remap = |v: &Vec<usize>| v.iter().map(|t| if *t == lab::ERROR_KIND { *t } else { map[*t].unwrap() }).collect::<Vec<_>>();
            let mut r2 = best_req.clone();
            r2.tokens = remap(&best_req.tokens);
            r2.base = best_req.base.as_ref().map(remap);
            let text2 = print(&g2).text;
            if let Some(vs) = eval_single(p, &g2, &text2, &[r2.clone()], tier) {
                if let Some((_, Err((s, w)))) = vs.into_iter().next() {
                    if s == sig {
                        best_g = g2;
                        best_req = r2;
                        best_what = Some(w);
                    }
                }
            }
        }
    }
    let text = print(&best_g).text;
    (best_g, text, best_req, best_what)
}

pub struct LabOutcome {
    pub ev: Evidence,
    pub inconclusive: Option<String>,
}

/// Full run of a lab property.
pub fn run_lab(p: &dyn LabProp, ctx: &Ctx, rep: &mut Report) -> LabOutcome {
    let mut ev = Evidence::new(p.id(), ctx.tier, ctx.seed, p.rule());
    let known_sigs = rep.known.sigs(p.id());
    let known = |s: &str| known_sigs.iter().any(|k| k == s);
    let profiles = p.profiles(ctx.tier);
    let n = p.n_grammars(ctx.tier);
    let mut runner = dice::runner(dice::mix(ctx.seed, &[dice::tag(p.id()), dice::tag("lab")]), 1);
    let mut cases: Vec<CaseIn> = vec![];
    let mut trees: Vec<Option<(Box<dyn ValueTree<Value = Vec<u32>>>, Profile)>> = vec![];
    for (g, name) in p.extra_grammars(ctx.tier) {
        let text = print(&g).text;
        let istream = dice::draw_trees(&mut runner, 6000, 1).pop().unwrap().current();
        cases.push(CaseIn { g, text, profile: name, istream });
        trees.push(None);
    }
    for prof in &profiles {
        let gt = dice::draw_trees(&mut runner, 500, n);
        let it = dice::draw_trees(&mut runner, 6000, n);
        for (t, i) in gt.into_iter().zip(it) {
            let mut g = p.build(prof, &t.current()).unwrap_or_else(|| ggen::build(prof, &t.current()));
            if let Some(g2) = p.transform(&g) {
                g = g2;
            }
            let text = print(&g).text;
            cases.push(CaseIn { g, text, profile: prof.name, istream: i.current() });
            trees.push(Some((t, prof.clone())));
        }
    }
    let indexed: Vec<(usize, &CaseIn)> = cases.iter().enumerate().collect();
    let bs = p.batch_size();
    let pool = rayon::ThreadPoolBuilder::new().num_threads(ctx.threads).stack_size(256 << 20).build().unwrap();
    let results: Vec<(Evidence, Vec<Found>, Option<String>)> = pool.install(|| indexed.par_chunks(bs).map(|chunk| process_batch(p, ctx.tier, ctx.seed, chunk, &known)).collect());
    let mut found: Vec<Found> = vec![];
    let mut inconclusive = None;
    for (e, f, inc) in results {
        ev.merge(e);
        found.extend(f);
        if inc.is_some() {
            inconclusive = inc;
        }
    }
    let acc = ev.labels.get("grammars_accepted").copied().unwrap_or(0);
    let genn = ev.labels.get("grammars_generated").copied().unwrap_or(0);
    ev.set("acceptance_ratio", json!(if genn > 0 { acc as f64 / genn as f64 } else { 0.0 }));
    // known findings: report, no shrinking
    let mut new_by_sig: std::collections::BTreeMap<String, Found> = std::collections::BTreeMap::new();
    for f in found {
        if known(&f.sig) {
            let c = &cases[f.case];
            rep.violation(Violation { sig: f.sig.clone(), what: f.what.clone(), replay: json!({"grammar": c.text, "request": req_json(&c.g, &f.req)}) });
        } else {
            let better = match new_by_sig.get(&f.sig) {
                None => true,
                Some(o) => cases[f.case].text.len() + f.req.tokens.len() < cases[o.case].text.len() + o.req.tokens.len(),
            };
            if better {
                new_by_sig.insert(f.sig.clone(), f);
            }
        }
    }
    // shrink up to three distinct new signatures
    for (_, f) in new_by_sig.into_iter().take(3) {
        let c = &cases[f.case];
        let (mut best_g, mut best_text) = (c.g.clone(), c.text.clone());
        // VERIF_NO_SHRINK=1: report the failure as found (debugging aid)
        let no_shrink = std::env::var("VERIF_NO_SHRINK").is_ok();
        let (mut best_req, mut sig, mut what) = if no_shrink { (f.req.clone(), String::new(), String::new()) } else { shrink_input(p, &best_g, &best_text, &f.req, &known, ctx.tier) };
        if sig.is_empty() {
            // not reproducible alone: report as found
            sig = f.sig.clone();
            what = format!("{} (not reproduced in a solo run)", f.what);
            best_req = f.req.clone();
        } else if let Some((tree, prof)) = trees[f.case].take() {
            // grammar shrinking on the choice stream
            let istream = c.istream.clone();
            let sig0 = sig.clone();
            let mut steps = 0;
            let mut fails = |stream: &[u32]| -> bool {
                steps += 1;
                let mut g2 = p.build(&prof, stream).unwrap_or_else(|| ggen::build(&prof, stream));
                if let Some(g3) = p.transform(&g2) {
                    g2 = g3;
                }
                let text2 = print(&g2).text;
                let info2 = GInfo::new(&g2);
                if p.domain(&g2, &info2).is_err() {
                    return false;
                }
                let mut reqs = vec![];
                if best_req.tokens.iter().all(|t| *t == lab::ERROR_KIND || *t < g2.tokens.len()) && best_req.entry <= g2.parts.len() {
                    reqs.push(best_req.clone());
                }
                let mut d = Dice::new(&istream);
                reqs.extend(p.requests(&g2, &info2, 0, &mut d, Tier::Quick).into_iter().take(60));
                match eval_single(p, &g2, &text2, &reqs, ctx.tier) {
                    None => false,
                    Some(vs) => {
                        if let Some((r, Err((s, w)))) = vs.into_iter().find(|(_, v)| matches!(v, Err((s, _)) if *s == sig0)) {
                            best_g = g2;
                            best_text = text2;
                            best_req = r;
                            sig = s;
                            what = w;
                            true
                        } else {
                            false
                        }
                    }
                }
            };
            let _ = dice::shrink_stream(tree, 48, &mut fails);
            let (r2, s2, w2) = shrink_input(p, &best_g, &best_text, &best_req, &known, ctx.tier);
            if !s2.is_empty() {
                best_req = r2;
                sig = s2;
                what = w2;
            }
        }
        if !sig.is_empty() && !what.ends_with("(not reproduced in a solo run)") {
            // grammar-level delta debugging, then the input once more
            let (g3, t3, r3, w3) = shrink_grammar(p, &best_g, &best_req, &sig, ctx.tier, 30);
            if let Some(w3) = w3 {
                best_g = g3;
                best_text = t3;
                best_req = r3;
                what = w3;
                let (r4, s4, w4) = shrink_input(p, &best_g, &best_text, &best_req, &known, ctx.tier);
                if s4 == sig {
                    best_req = r4;
                    what = w4;
                }
            }
        }
        rep.violation(Violation {
            sig,
            what: format!("{what}\n  grammar:\n    {}\n  input: [{}] entry={} enc={} pmode={} amode={} smode={}", best_text.replace('\n', "\n    "), inputs::show(&best_g, &best_req.tokens), best_req.entry, best_req.enc, best_req.pmode, best_req.amode, best_req.smode),
            replay: json!({"grammar": best_text, "request": req_json(&best_g, &best_req), "original_grammar": c.text, "original_request": req_json(&c.g, &f.req)}),
        });
    }
    lab::cleanup_scratch();
    LabOutcome { ev, inconclusive }
}

/// Replay files of the lab kind: {"replay": {"grammar": text, "request": {...}}}
pub fn replay_lab(p: &dyn LabProp, files: &[std::path::PathBuf], ctx: &Ctx, rep: &mut Report, ev: &mut Evidence) {
    for f in files {
        let Ok(s) = std::fs::read_to_string(f) else { continue };
        let Ok(v) = serde_json::from_str::<Value>(&s) else { continue };
        let text = v["replay"]["grammar"].as_str().unwrap_or("");
        let Some(g) = crate::lw::import(text) else {
            ev.exclude("replay grammar no longer imports");
            continue;
        };
        let Some(req) = req_from_json(&g, &v["replay"]["request"]) else { continue };
        ev.label("replayed");
        ev.eval();
        match eval_single(p, &g, &print(&g).text, &[req.clone()], ctx.tier) {
            None => ev.exclude("replay grammar outside domain / not compiling"),
            Some(vs) => {
                for (r, verdict) in vs {
                    if let Err((sig, what)) = verdict {
                        rep.violation(Violation { sig, what: format!("{what} (replay {})", f.display()), replay: json!({"grammar": text, "request": req_json(&g, &r)}) });
                    }
                }
            }
        }
    }
}

pub fn sampler_for<'g>(g: &'g Grammar) -> Sampler<'g> {
    Sampler::new(g)
}

/// Common main for lab properties.
pub fn main_lab(p: &dyn LabProp, ctx: &Ctx) -> i32 {
    main_lab_with(p, ctx, &mut |_, _| {})
}

/// like `main_lab`, with an extra stage that adds to the same evidence and report
pub fn main_lab_with(p: &dyn LabProp, ctx: &Ctx, extra: &mut dyn FnMut(&mut Evidence, &mut Report)) -> i32 {
    let mut rep = Report::new(p.id());
    if let Some(f) = &ctx.replay {
        let mut ev = Evidence::new(p.id(), ctx.tier, ctx.seed, p.rule());
        replay_lab(p, &[f.clone()], ctx, &mut rep, &mut ev);
        let code = rep.finish(&mut ev);
        ev.write();
        lab::cleanup_scratch();
        return code;
    }
    let mut ev0 = Evidence::new(p.id(), ctx.tier, ctx.seed, p.rule());
    replay_lab(p, &crate::checks::replay_files(p.id()), ctx, &mut rep, &mut ev0);
    let out = run_lab(p, ctx, &mut rep);
    let mut ev = out.ev;
    ev.merge(ev0);
    extra(&mut ev, &mut rep);
    let code = rep.finish(&mut ev);
    ev.write();
    if code == 0 {
        if let Some(e) = out.inconclusive {
            eprintln!("inconclusive: lab infrastructure error: {e}");
            return 2;
        }
    }
    code
}
