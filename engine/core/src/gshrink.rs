//! Grammar-level delta debugging. The choice-stream shrinker of proptest only knows numbers;
//! after it has run, the failing grammar is reduced further on the grammar model itself: every
//! one-step simplification (drop a branch / a concat element / a decoration, replace a node by
//! its child, replace a rule reference by a token, drop a rule, a part, a skipped token, the
//! declaration order) is a candidate, all candidates of a round are compiled as one batch and
//! the first one on which the failure persists becomes the new grammar.

use crate::gm::*;

/// k-th node (preorder) of a regex, mutable
fn nth_mut<'a>(r: &'a mut Regex, k: &mut usize) -> Option<&'a mut Regex> {
    if *k == 0 {
        return Some(r);
    }
    *k -= 1;
    for c in r.children_mut() {
        if let Some(x) = nth_mut(c, k) {
            return Some(x);
        }
    }
    None
}

fn nth<'a>(r: &'a Regex, k: &mut usize) -> Option<&'a Regex> {
    if *k == 0 {
        return Some(r);
    }
    *k -= 1;
    for c in r.children() {
        if let Some(x) = nth(c, k) {
            return Some(x);
        }
    }
    None
}

fn remove_marker(r: &mut Regex, m: u32) {
    match r {
        Regex::Concat(v) | Regex::Alt(v) | Regex::Choice(v) => {
            v.retain(|c| *c != Regex::Marker(m));
            for c in v.iter_mut() {
                remove_marker(c, m);
            }
        }
        _ => {
            for c in r.children_mut() {
                remove_marker(c, m);
            }
        }
    }
}

/// remove rule `x`: references become the token `t`, indices above shift down
fn drop_rule(g: &Grammar, x: usize, t: usize) -> Option<Grammar> {
    if x == g.start || g.rules.len() < 2 {
        return None;
    }
    fn fix(r: &mut Regex, x: usize, t: usize) {
        match r {
            Regex::Ref(i) if *i == x => *r = Regex::Tok(t, false),
            Regex::Ref(i) if *i > x => *i -= 1,
            _ => {
                for c in r.children_mut() {
                    fix(c, x, t);
                }
            }
        }
    }
    let mut n = g.clone();
    n.rules.remove(x);
    for r in n.rules.iter_mut() {
        if let Some(b) = r.body.as_mut() {
            fix(b, x, t);
        }
    }
    n.parts.retain(|p| *p != x);
    for p in n.parts.iter_mut() {
        if *p > x {
            *p -= 1;
        }
    }
    if n.start > x {
        n.start -= 1;
    }
    n.order = None;
    Some(n)
}

fn plain_token(g: &Grammar) -> usize {
    (0..g.tokens.len()).find(|t| !g.skip.contains(t)).unwrap_or(0)
}

/// All one-step simplifications of `g`, larger cuts first. Candidates are syntactically well
/// formed; whether lelwel still accepts them (and the failure persists) is for the caller to try.
pub fn candidates(g: &Grammar) -> Vec<Grammar> {
    let mut out: Vec<Grammar> = vec![];
    let t0 = plain_token(g);
    // whole rules
    for x in (0..g.rules.len()).rev() {
        if let Some(n) = drop_rule(g, x, t0) {
            out.push(n);
        }
    }
    // declarations
    if g.order.is_some() {
        out.push(Grammar { order: None, ..g.clone() });
    }
    for i in 0..g.parts.len() {
        let mut n = g.clone();
        n.parts.remove(i);
        n.order = None;
        out.push(n);
    }
    for i in 0..g.skip.len() {
        let mut n = g.clone();
        n.skip.remove(i);
        n.order = None;
        out.push(n);
    }
    for i in 0..g.right.len() {
        let mut n = g.clone();
        n.right.remove(i);
        n.order = None;
        out.push(n);
    }
    for (i, r) in g.rules.iter().enumerate() {
        if r.elided {
            let mut n = g.clone();
            n.rules[i].elided = false;
            out.push(n);
        }
    }
    // regex nodes: collect (size of the cut, grammar) and sort by cut size descending
    let mut cuts: Vec<(usize, Grammar)> = vec![];
    for (ri, rule) in g.rules.iter().enumerate() {
        let Some(body) = &rule.body else { continue };
        let total = body.size();
        for k in 0..total {
            let mut edits: Vec<(usize, Regex)> = vec![]; // (cut size, replacement for node k)
            {
                let mut kk = k;
                let Some(node) = nth(body, &mut kk) else { continue };
                let whole = node.size();
                match node {
                    Regex::Concat(v) | Regex::Alt(v) | Regex::Choice(v) => {
                        for i in 0..v.len() {
                            let mut w = v.clone();
                            let cut = w.remove(i).size();
                            let repl = match node {
                                Regex::Concat(_) => Regex::Concat(w),
                                Regex::Alt(_) => Regex::Alt(w),
                                _ => Regex::Choice(w),
                            };
                            edits.push((cut, repl));
                            // keep only this operand
                            if v.len() > 2 {
                                edits.push((whole - v[i].size(), v[i].clone()));
                            }
                        }
                        if let Regex::Choice(v) = node {
                            edits.push((0, Regex::Alt(v.clone())));
                        }
                    }
                    Regex::Opt(b) | Regex::Star(b) | Regex::Plus(b) => {
                        edits.push((1, (**b).clone()));
                        if !matches!(node, Regex::Opt(_)) {
                            edits.push((0, Regex::Opt(b.clone())));
                        }
                    }
                    Regex::Paren(Some(b)) => edits.push((1, (**b).clone())),
                    Regex::Ref(_) => edits.push((0, Regex::Tok(t0, false))),
                    Regex::Tok(t, true) => edits.push((0, Regex::Tok(*t, false))),
                    Regex::Create(Some(_), Some(_)) | Regex::Create(None, Some(_)) => {
                        if let Regex::Create(i, _) = node {
                            edits.push((0, Regex::Create(*i, None)));
                        }
                    }
                    _ => {}
                }
            }
            for (cut, repl) in edits {
                let mut n = g.clone();
                let mut kk = k;
                let removed_marker = {
                    let b = n.rules[ri].body.as_mut().unwrap();
                    let node = nth_mut(b, &mut kk).unwrap();
                    let old = std::mem::replace(node, repl);
                    // a removed creation takes its marker along
                    let mut ms = vec![];
                    old.walk(&mut |x| {
                        if let Regex::Create(Some(m), _) = x {
                            ms.push(*m);
                        }
                    });
                    ms
                };
                let b = n.rules[ri].body.take().unwrap();
                let mut b = b;
                let mut still: Vec<u32> = vec![];
                b.walk(&mut |x| {
                    if let Regex::Create(Some(m), _) = x {
                        still.push(*m);
                    }
                });
                for m in removed_marker {
                    if !still.contains(&m) {
                        remove_marker(&mut b, m);
                    }
                }
                n.rules[ri].body = Some(b.normalize());
                if n != *g {
                    cuts.push((cut, n));
                }
            }
        }
        // empty body
        if g.rules.len() > 1 && ri != g.start {
            let mut n = g.clone();
            n.rules[ri].body = None;
            cuts.push((total, n));
        }
    }
    cuts.sort_by(|a, b| b.0.cmp(&a.0));
    out.extend(cuts.into_iter().map(|(_, g)| g));
    out
}

/// Drop tokens that nothing refers to (kept out of `candidates`: it renumbers tokens). Returns
/// the new grammar and the index map old -> new.
pub fn drop_unused_tokens(g: &Grammar, keep: &[usize]) -> (Grammar, Vec<Option<usize>>) {
    let mut used = vec![false; g.tokens.len()];
    for r in &g.rules {
        if let Some(b) = &r.body {
            b.walk(&mut |x| {
                if let Regex::Tok(t, _) = x {
                    used[*t] = true;
                }
            });
        }
    }
    for t in g.skip.iter().chain(g.right.iter()).chain(keep.iter()) {
        if *t < used.len() {
            used[*t] = true;
        }
    }
    let mut map = vec![None; g.tokens.len()];
    let mut n = g.clone();
    n.tokens.clear();
    for (i, t) in g.tokens.iter().enumerate() {
        if used[i] {
            map[i] = Some(n.tokens.len());
            n.tokens.push(t.clone());
        }
    }
    fn fix(r: &mut Regex, map: &[Option<usize>]) {
        if let Regex::Tok(t, _) = r {
            *t = map[*t].unwrap();
        }
        for c in r.children_mut() {
            fix(c, map);
        }
    }
    for r in n.rules.iter_mut() {
        if let Some(b) = r.body.as_mut() {
            fix(b, &map);
        }
    }
    n.skip = g.skip.iter().map(|t| map[*t].unwrap()).collect();
    n.right = g.right.iter().map(|t| map[*t].unwrap()).collect();
    n.order = None;
    (n, map)
}
