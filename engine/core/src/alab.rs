//! Analysis lab: run lelwel's semantic pass and the reference analyses on one grammar and
//! line the results up through the printer's spans.

use crate::gm::*;
use crate::lw::{self, LwRun};
use crate::refan::{self, Bnf, RefSets, TS};
use std::collections::BTreeSet;

pub struct Analysis {
    pub printed: Printed,
    pub flat: Flat,
    pub bnf: Bnf,
    pub sets: RefSets,
    /// sets under the strict augmentation (a part's end marker follows only that part)
    pub strict: RefSets,
    pub run: LwRun,
}

pub const LL1_CODES: [&str; 4] = ["E011", "E012", "E013", "E014"];
/// error codes that do not prevent lelwel from computing first/follow/predict
pub const POST_RESOLUTION_CODES: [&str; 8] = ["E011", "E012", "E013", "E014", "E015", "E020", "E028", "E029"];

pub fn analyse(g: &Grammar) -> Result<Analysis, String> {
    let printed = print(g);
    let flat = Flat::new(g);
    let bnf = refan::build_bnf(g, &flat);
    let sets = refan::ref_sets(&bnf);
    let strict = refan::ref_sets(&refan::build_bnf_opt(g, &flat, false));
    let text = printed.text.clone();
    let run = lw::catch(move || lw::analyze(&text))?;
    Ok(Analysis { printed, flat, bnf, sets, strict, run })
}

impl Analysis {
    /// name resolution and the other general checks passed: sets were computed
    pub fn sets_computed(&self) -> bool {
        self.run.syntax_diag_count == 0
            && !self.run.diags.iter().any(|d| d.error && !d.code.as_deref().is_some_and(|c| POST_RESOLUTION_CODES.contains(&c)))
    }
    pub fn names(&self, g: &Grammar, ts: &TS) -> BTreeSet<String> {
        refan::ts_names(g, ts)
    }
}

pub const EPS: &str = "ɛ";

#[derive(Debug, Clone)]
pub struct SetMismatch {
    pub node: usize,
    pub which: &'static str,
    pub expected: BTreeSet<String>,
    pub got: Option<BTreeSet<String>>,
}

/// C09 comparison for all nodes of reachable rules.
pub fn compare_sets(g: &Grammar, a: &Analysis) -> Vec<SetMismatch> {
    let mut out = vec![];
    let reach = refan::reachable_rules(g, true);
    for (id, node) in a.flat.nodes.iter().enumerate() {
        if !reach[node.rule] {
            continue;
        }
        let span = a.printed.spans[id];
        let got = a.run.sets.get(&span);
        let mut exp_first = a.names(g, &a.sets.first[id]);
        if a.sets.nullable[id] {
            exp_first.insert(EPS.to_string());
        }
        let n_tok = g.tokens.len();
        let is_part_marker = |x: &String| x.starts_with("EOF") && x != "EOF" && !g.tokens.iter().take(n_tok).any(|t| &t.name == x);
        // real tokens, EOF and the empty word exactly; part end markers between the strict
        // and the loose augmentation (I-3)
        let within = |got: &BTreeSet<String>, lo: &BTreeSet<String>, hi: &BTreeSet<String>| -> bool {
            let g2: BTreeSet<String> = got.iter().filter(|x| x.as_str() != EPS).cloned().collect();
            let core = |s: &BTreeSet<String>| -> BTreeSet<String> { s.iter().filter(|x| !is_part_marker(x)).cloned().collect() };
            core(&g2) == core(hi) && lo.iter().all(|x| g2.contains(x)) && g2.iter().all(|x| hi.contains(x))
        };
        let exp_follow = a.names(g, &a.sets.follow[id]);
        let exp_predict = a.names(g, &a.sets.predict(id));
        let lo_follow = a.names(g, &a.strict.follow[id]);
        let lo_predict = a.names(g, &a.strict.predict(id));
        match got {
            None => out.push(SetMismatch { node: id, which: "missing", expected: exp_first, got: None }),
            Some(ns) => {
                match &ns.first {
                    Some(f) if *f == exp_first => {}
                    f => out.push(SetMismatch { node: id, which: "first", expected: exp_first.clone(), got: f.clone() }),
                }
                match &ns.follow {
                    Some(f) if within(f, &lo_follow, &exp_follow) => {}
                    f => out.push(SetMismatch { node: id, which: "follow", expected: exp_follow.clone(), got: f.clone() }),
                }
                match &ns.predict {
                    Some(f) if within(f, &lo_predict, &exp_predict) => {}
                    f => out.push(SetMismatch { node: id, which: "predict", expected: exp_predict.clone(), got: f.clone() }),
                }
            }
        }
    }
    out
}

pub fn node_text(a: &Analysis, id: usize) -> String {
    let (s, e) = a.printed.spans[id];
    a.printed.text[s..e].to_string()
}
