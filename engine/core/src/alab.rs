//! Analysis lab: run lelwel's semantic pass and the reference analyses on one grammar and
//! line the results up through the printer's spans.

use crate::gm::*;
use crate::lw::{self, LwRun};
use crate::refan::{self, Bnf, RefSets, TS};
use std::collections::BTreeSet;


pub struct Analysis {
    pub printed: Printed,
    pub flat: Flat,
    pub bnf: Bnf,
    pub sets: RefSets,
    /// sets under the strict augmentation (a part's end marker follows only that part)
    pub strict: RefSets,
    pub run: LwRun,
}

pub const LL1_CODES: [&str; 4] = ["E011", "E012", "E013", "E014"];
/// error codes that do not prevent lelwel from computing first/follow/predict
pub const POST_RESOLUTION_CODES: [&str; 8] = ["E011", "E012", "E013", "E014", "E015", "E020", "E028", "E029"];

pub fn analyse(g: &Grammar) -> Result<Analysis, String> {
    let printed = print(g);
    let flat = Flat::new(g);
    let bnf = refan::build_bnf(g, &flat);
    let sets = refan::ref_sets(&bnf);
    let strict = refan::ref_sets(&refan::build_bnf_opt(g, &flat, false));
    let text = printed.text.clone();
    let run = lw::catch(move || lw::analyze(&text))?;
    Ok(Analysis { printed, flat, bnf, sets, strict, run })
}

impl Analysis {
    /// name resolution and the other general checks passed: sets were computed
    pub fn sets_computed(&self) -> bool {
        self.run.syntax_diag_count == 0
            && !self.run.diags.iter().any(|d| d.error && !d.code.as_deref().is_some_and(|c| POST_RESOLUTION_CODES.contains(&c)))
    }
    pub fn names(&self, g: &Grammar, ts: &TS) -> BTreeSet<String> {
        refan::ts_names(g, ts)
    }
}

pub const EPS: &str = "ɛ";

#[derive(Debug, Clone)]
pub struct SetMismatch {
    pub node: usize,
    pub which: &'static str,
    pub expected: BTreeSet<String>,
    pub got: Option<BTreeSet<String>>,
}

/// C09 comparison for all nodes of reachable rules.
pub fn compare_sets(g: &Grammar, a: &Analysis) -> Vec<SetMismatch> {
    let mut out = vec![];
    let reach = refan::reachable_rules(g, true);
    for (id, node) in a.flat.nodes.iter().enumerate() {
        if !reach[node.rule] {
            continue;
        }
        let span = a.printed.spans[id];
        let got = a.run.sets.get(&span);
        let mut exp_first = a.names(g, &a.sets.first[id]);
        if a.sets.nullable[id] {
            exp_first.insert(EPS.to_string());
        }
        let n_tok = g.tokens.len();
        let is_part_marker = |x: &String| x.starts_with("EOF") && x != "EOF" && !g.tokens.iter().take(n_tok).any(|t| &t.name == x);
        // real tokens, EOF and the empty word exactly; part end markers between the strict
        // and the loose augmentation (I-3)
        let within = |got: &BTreeSet<String>, lo: &BTreeSet<String>, hi: &BTreeSet<String>| -> bool {
            let g2: BTreeSet<String> = got.iter().filter(|x| x.as_str() != EPS).cloned().collect();
            let core = |s: &BTreeSet<String>| -> BTreeSet<String> { s.iter().filter(|x| !is_part_marker(x)).cloned().collect() };
            core(&g2) == core(hi) && lo.iter().all(|x| g2.contains(x)) && g2.iter().all(|x| hi.contains(x))
        };
        let exp_follow = a.names(g, &a.sets.follow[id]);
        let exp_predict = a.names(g, &a.sets.predict(id));
        let lo_follow = a.names(g, &a.strict.follow[id]);
        let lo_predict = a.names(g, &a.strict.predict(id));
        match got {
            None => out.push(SetMismatch { node: id, which: "missing", expected: exp_first, got: None }),
            Some(ns) => {
                match &ns.first {
                    Some(f) if *f == exp_first => {}
                    f => out.push(SetMismatch { node: id, which: "first", expected: exp_first.clone(), got: f.clone() }),
                }
                match &ns.follow {
                    Some(f) if within(f, &lo_follow, &exp_follow) => {}
                    f => out.push(SetMismatch { node: id, which: "follow", expected: exp_follow.clone(), got: f.clone() }),
                }
                match &ns.predict {
                    Some(f) if within(f, &lo_predict, &exp_predict) => {}
                    f => out.push(SetMismatch { node: id, which: "predict", expected: exp_predict.clone(), got: f.clone() }),
                }
            }
        }
    }
    out
}

pub fn node_text(a: &Analysis, id: usize) -> String {
    let (s, e) = a.printed.spans[id];
    a.printed.text[s..e].to_string()
}

/// Does this branch / body start with a semantic predicate (`?n` or `?t`)?
pub fn has_leading_pred(flat: &Flat, n: usize) -> bool {
    match &flat.nodes[n].kind {
        K::Concat => flat.nodes[n].children.first().is_some_and(|c| matches!(flat.nodes[*c].kind, K::Pred(_))),
        K::Paren => flat.nodes[n].children.first().is_some_and(|c| has_leading_pred(flat, *c)),
        _ => false,
    }
}

#[derive(Debug, Clone)]
pub struct PrattBranch {
    pub branch: usize,
    /// child index of the left operand (Some for left recursive branches)
    pub left: Option<usize>,
    /// child index of the right operand
    pub right: Option<usize>,
}

/// Recursive branches of a rule whose body is a top-level alternation (README: direct recursion).
pub fn pratt_branches(flat: &Flat, rule: usize) -> Vec<PrattBranch> {
    let mut out = vec![];
    let Some(body) = flat.rule_body[rule] else { return out };
    if flat.nodes[body].kind != K::Alt {
        return out;
    }
    for b in &flat.nodes[body].children {
        if flat.nodes[*b].kind != K::Concat {
            continue;
        }
        let ch = &flat.nodes[*b].children;
        let sig: Vec<usize> = (0..ch.len()).filter(|i| !matches!(flat.nodes[ch[*i]].kind, K::Pred(_) | K::Rename(_) | K::Elide | K::Action(_))).collect();
        if sig.len() < 2 {
            // a single operand is no operator branch
            continue;
        }
        let is_self = |i: usize| flat.nodes[ch[i]].kind == K::Ref(rule);
        let left = sig.first().copied().filter(|i| is_self(*i));
        let right = sig.last().copied().filter(|i| is_self(*i));
        if left.is_some() || right.is_some() {
            out.push(PrattBranch { branch: *b, left, right });
        }
    }
    out
}

pub type ConflictSet = BTreeSet<(String, (usize, usize))>;

/// Expected LL(1) conflicts from the definition and the reference sets.
/// Returns (must, may): `must` ⊆ reported ⊆ `may` is required (the difference is the single
/// don't-care case I-4: an unguarded earlier branch against a guarded later one).
pub fn expected_conflicts(g: &Grammar, a: &Analysis) -> (ConflictSet, ConflictSet) {
    let flat = &a.flat;
    let s = &a.sets;
    let mut must = ConflictSet::new();
    let mut may = ConflictSet::new();
    let span = |n: usize| a.printed.spans[n];
    for (id, node) in flat.nodes.iter().enumerate() {
        match node.kind {
            K::Alt => {
                let top = node.parent.is_none();
                let pb = if top { pratt_branches(flat, node.rule) } else { vec![] };
                let left_rec: Vec<&PrattBranch> = pb.iter().filter(|b| b.left.is_some()).collect();
                let is_left = |b: usize| left_rec.iter().any(|x| x.branch == b);
                let cand: Vec<usize> = node.children.iter().copied().filter(|c| !is_left(*c)).collect();
                for i in 0..cand.len() {
                    if has_leading_pred(flat, cand[i]) {
                        continue;
                    }
                    for j in i + 1..cand.len() {
                        if !s.predict(cand[i]).inter(&s.predict(cand[j])).is_empty() {
                            may.insert(("E011".into(), span(cand[i])));
                            if !has_leading_pred(flat, cand[j]) {
                                must.insert(("E011".into(), span(cand[i])));
                            }
                        }
                    }
                }
                if !left_rec.is_empty() {
                    // tokens that may follow the rule outside its own operand positions
                    let mut outside = TS::default();
                    for (occ, n2) in flat.nodes.iter().enumerate() {
                        if n2.kind != K::Ref(node.rule) {
                            continue;
                        }
                        let governed = pb.iter().any(|b| {
                            let ch = &flat.nodes[b.branch].children;
                            b.left.is_some_and(|i| ch[i] == occ) || b.right.is_some_and(|i| ch[i] == occ)
                        });
                        if !governed {
                            outside = outside.union(&s.follow[occ]);
                        }
                    }
                    // the end of a part's input follows the part's rule from outside as well
                    if let Some(pi) = g.parts.iter().position(|p| *p == node.rule) {
                        outside.insert(crate::refan::part_eof_index(g, pi));
                    }
                    // the operator: first element behind the left operand
                    let op_of = |b: &PrattBranch| -> Option<usize> {
                        let ch = &flat.nodes[b.branch].children;
                        let l = b.left?;
                        ch.iter().copied().enumerate().find(|(j, c)| *j > l && !matches!(flat.nodes[*c].kind, K::Pred(_))).map(|(_, c)| c)
                    };
                    for (i, b) in left_rec.iter().enumerate() {
                        if has_leading_pred(flat, b.branch) {
                            continue;
                        }
                        let Some(op) = op_of(b) else { continue };
                        if !s.predict(op).inter(&outside).is_empty() {
                            must.insert(("E012".into(), span(op)));
                            may.insert(("E012".into(), span(op)));
                        }
                        for b2 in left_rec.iter().skip(i + 1) {
                            let Some(op2) = op_of(b2) else { continue };
                            if !s.predict(op).inter(&s.predict(op2)).is_empty() {
                                may.insert(("E012".into(), span(op)));
                                if !has_leading_pred(flat, b2.branch) {
                                    must.insert(("E012".into(), span(op)));
                                }
                            }
                        }
                    }
                }
            }
            K::Star | K::Plus | K::Opt => {
                let body = node.children[0];
                if !has_leading_pred(flat, body) && !s.follow[id].inter(&s.predict(body)).is_empty() {
                    let code = if node.kind == K::Opt { "E014" } else { "E013" };
                    must.insert((code.into(), span(id)));
                    may.insert((code.into(), span(id)));
                }
            }
            _ => {}
        }
    }
    let _ = g;
    (must, may)
}

pub fn reported_conflicts(a: &Analysis) -> ConflictSet {
    a.run.diags.iter().filter(|d| d.code.as_deref().is_some_and(|c| LL1_CODES.contains(&c))).filter_map(|d| d.primary().map(|p| (d.code.clone().unwrap(), p))).collect()
}
