//! Coverage-guided companion of the in-process properties. Every generator here is a pure
//! function of a choice stream (`Vec<u32>`), so libFuzzer can drive the *structured* generators:
//! the fuzz input is the stream (little-endian u32s), the target (`engine/fuzz/fuzz_targets/
//! stream_prop.rs`, property chosen by the environment variable `VFUZZ_PROP`) decodes it, builds
//! the grammar / layout / history with the same code as the proptest stage and evaluates the
//! same oracle, panicking on a violation that is not a listed finding. Coverage feedback comes
//! from lelwel itself (sema.rs, format.rs, ide/*), so the search is steered towards grammar
//! shapes that reach new branches of the analysis, which uniform sampling reaches slowly.
//!
//! A campaign is only approximately reproducible (-seed, -runs, generated seed corpus); the saved
//! artifact is decoded and re-judged in-process by the ordinary oracle, and what is reported is
//! that verdict (with the usual replay file), never the fuzzer's exit status.

use crate::checks::{self, Ctx};
use crate::dice;
use crate::ev::{Evidence, Report};
use proptest::strategy::ValueTree;
use serde_json::json;

pub fn decode(bytes: &[u8]) -> Vec<u32> {
    bytes
        .chunks(4)
        .map(|c| {
            let mut b = [0u8; 4];
            b[..c.len()].copy_from_slice(c);
            u32::from_le_bytes(b)
        })
        .collect()
}

pub fn encode(stream: &[u32]) -> Vec<u8> {
    stream.iter().flat_map(|v| v.to_le_bytes()).collect()
}

/// properties that have a stream-level, in-process oracle
pub const STREAM_PROPS: [&str; 7] = ["C09", "C10", "C13", "C14", "C17", "C18", "C20"];

/// Run the libFuzzer campaign for `id` and add what it did to `ev` / `rep`.
pub fn run_stream_fuzz(ctx: &Ctx, id: &str, ev: &mut Evidence, rep: &mut Report) {
    let fuzz_dir = crate::ev::root().join("engine/fuzz");
    let work = crate::lab::scratch_root().join(format!("sfuzz-{id}"));
    let _ = std::fs::remove_dir_all(&work);
    let cdir = work.join("corpus");
    let adir = work.join("artifacts");
    std::fs::create_dir_all(&cdir).unwrap();
    std::fs::create_dir_all(&adir).unwrap();
    // seed corpus: streams from the same strategy the proptest stage uses
    let max_len = checks::stream_len(id);
    let mut runner = dice::runner(dice::mix(ctx.seed, &[dice::tag(id), dice::tag("fuzz-corpus")]), 1);
    let n_seed = 400;
    for (i, t) in dice::draw_trees(&mut runner, max_len, n_seed).into_iter().enumerate() {
        let _ = std::fs::write(cdir.join(format!("s{i:03}")), encode(&t.current()));
    }
    let default_runs = ctx.tier.pick(200_000u64, 3_000_000u64);
    let runs = std::env::var("VERIF_FUZZ_RUNS").ok().and_then(|s| s.parse::<u64>().ok()).unwrap_or(default_runs);
    let build = std::process::Command::new("cargo").current_dir(&fuzz_dir).env("CARGO_NET_OFFLINE", "true").args(["+nightly", "fuzz", "build", "-s", "none", "stream_prop"]).output();
    match build {
        Ok(o) if o.status.success() => {}
        other => {
            ev.exclude(&format!("libFuzzer stage: target could not be built ({})", other.map(|o| String::from_utf8_lossy(&o.stderr).lines().last().unwrap_or("").to_string()).unwrap_or_else(|e| e.to_string())));
            let _ = std::fs::remove_dir_all(&work);
            return;
        }
    }
    let jobs = ctx.threads.min(12).max(1);
    // run from the work directory so that the per-job logs (fuzz-<n>.log) of concurrent
    // campaigns for different properties do not collide
    let bin = fuzz_dir.join("target/x86_64-unknown-linux-gnu/release/stream_prop");
    let out = std::process::Command::new(&bin)
        .current_dir(&work)
        .env("VFUZZ_PROP", id)
        .env("VERIF_NO_WATCHDOG", "1")
        .env("VERIF_ROOT", crate::ev::root())
        .arg(&cdir)
        .arg(format!("-artifact_prefix={}/", adir.display()))
        .arg(format!("-seed={}", 1 + ctx.seed % 1_000_000))
        .arg(format!("-runs={}", runs / jobs as u64))
        .arg(format!("-max_len={}", max_len * 4))
        .args(["-len_control=0", "-print_final_stats=1", "-timeout=60", "-rss_limit_mb=4096"])
        .arg(format!("-jobs={jobs}"))
        .arg(format!("-workers={jobs}"))
        .output();
    let Ok(out) = out else {
        ev.exclude("libFuzzer stage: could not run");
        let _ = std::fs::remove_dir_all(&work);
        return;
    };
    let mut execs = 0u64;
    let mut cov_max = 0u64;
    // with -jobs the statistics of each job are in fuzz-<n>.log (the parent only reports exits)
    let mut text = String::new();
    for j in 0..jobs {
        if let Ok(t) = std::fs::read_to_string(work.join(format!("fuzz-{j}.log"))) {
            text.push_str(&t);
        }
    }
    if text.is_empty() {
        text = String::from_utf8_lossy(&out.stderr).to_string();
    }
    for l in text.lines() {
        if let Some(v) = l.strip_prefix("stat::number_of_executed_units:") {
            execs += v.trim().parse::<u64>().unwrap_or(0);
        }
        if let Some(p) = l.find(" cov: ") {
            if let Some(n) = l[p + 6..].split_whitespace().next().and_then(|x| x.parse::<u64>().ok()) {
                cov_max = cov_max.max(n);
            }
        }
    }
    let corpus_after = std::fs::read_dir(&cdir).map(|d| d.count()).unwrap_or(0);
    ev.evaluations += execs;
    ev.label_n("libfuzzer_executions", execs);
    ev.set("libfuzzer", json!({"target": "stream_prop", "runs_requested": runs, "executions": execs, "jobs": jobs, "seed_corpus_streams": n_seed, "corpus_after": corpus_after, "edges_covered": cov_max}));
    // artifacts: decode, re-judge in-process, report through the ordinary path
    if let Ok(rd) = std::fs::read_dir(&adir) {
        for e in rd.flatten() {
            let Ok(bytes) = std::fs::read(e.path()) else { continue };
            let stream = decode(&bytes);
            let idc = id.to_string();
            let res = crate::lw::catch(move || {
                let mut ev2 = Evidence::new(&idc, crate::ev::Tier::Thorough, 0, "");
                checks::stream_case(&idc, &stream, &mut ev2)
            });
            match res {
                Ok(Ok(())) => {
                    let kind = e.file_name().to_string_lossy().split('-').next().unwrap_or("artifact").to_string();
                    ev.exclude(&format!("libFuzzer artifact ({kind}) did not reproduce in-process"))
                }
                Ok(Err(v)) => rep.violation(v),
                Err(p) => {
                    // a panic that escapes the oracle code is a harness problem, not a verdict
                    eprintln!("inconclusive: re-evaluation of a libFuzzer artifact panicked in the harness: {p}");
                    ev.exclude("libFuzzer artifact: harness panic on re-evaluation (inconclusive)");
                }
            }
        }
    }
    let _ = std::fs::remove_dir_all(&work);
}

/// the coverage-guided stage belongs to the thorough tier (or VERIF_FUZZ=1)
pub fn maybe(ctx: &Ctx, id: &str, ev: &mut Evidence, rep: &mut Report) {
    if ctx.tier == crate::ev::Tier::Thorough || std::env::var("VERIF_FUZZ").is_ok() {
        run_stream_fuzz(ctx, id, ev, rep);
    }
}
