//! Oracles over a runner reply that need no reference parser: losslessness (C01), structural
//! well-formedness and the created-callback audit (C02).

use crate::gm::Grammar;
use crate::lab::{self, Event, Reply, Req, TNode};
use std::collections::BTreeMap;

pub fn token_name(g: &Grammar, kind: usize) -> String {
    if kind == lab::ERROR_KIND { "Error".to_string() } else { g.tokens[kind].name.clone() }
}

/// C01: every input token exactly once, in order, with its span — through `children()` and
/// through the flat vector.
pub fn check_lossless(g: &Grammar, req: &Req, rep: &Reply) -> Result<(), String> {
    let Some(tree) = &rep.tree else { return Err("no tree".into()) };
    let spans = lab::spans(&req.tokens, req.enc);
    let mut leaves = vec![];
    tree.leaves(&mut leaves);
    if leaves.len() != req.tokens.len() {
        return Err(format!("walk visits {} token leaves, input has {} tokens", leaves.len(), req.tokens.len()));
    }
    for (i, l) in leaves.iter().enumerate() {
        let TNode::Tok { kind, idx, s, e, .. } = l else { unreachable!() };
        let want = token_name(g, req.tokens[i]);
        if *kind != want || *idx != i || (*s, *e) != spans[i] {
            return Err(format!("leaf {i} of the walk is {kind}@{idx} [{s}..{e}], input token {i} is {want} [{}..{}]", spans[i].0, spans[i].1));
        }
    }
    let flat_toks: Vec<&(bool, String, usize)> = rep.flat.iter().filter(|n| n.0).collect();
    if flat_toks.len() != req.tokens.len() {
        return Err(format!("flat vector holds {} token nodes, input has {} tokens", flat_toks.len(), req.tokens.len()));
    }
    for (i, t) in flat_toks.iter().enumerate() {
        if t.1 != token_name(g, req.tokens[i]) || t.2 != i {
            return Err(format!("flat token node {i} is {}@{}, input token is {}", t.1, t.2, token_name(g, req.tokens[i])));
        }
    }
    // source text reproducible
    let src = lab::encode(&req.tokens, req.enc);
    let mut rebuilt = String::new();
    for l in &leaves {
        let (s, e) = l.span();
        if e > src.len() || s > e {
            return Err(format!("leaf span {s}..{e} outside the source"));
        }
        rebuilt.push_str(&src[s..e]);
    }
    if rebuilt != src {
        return Err("concatenated leaf texts differ from the source".into());
    }
    Ok(())
}

/// tree built from the flat vector's offsets alone
fn tree_from_flat(flat: &[(bool, String, usize)], spans: &[(usize, usize)]) -> Result<TNode, String> {
    fn build(flat: &[(bool, String, usize)], spans: &[(usize, usize)], i: usize, end: usize, prev_end: &mut usize) -> Result<(TNode, usize), String> {
        let (is_tok, kind, x) = &flat[i];
        if *is_tok {
            let (s, e) = *spans.get(*x).ok_or_else(|| format!("token index {x} out of range at node {i}"))?;
            *prev_end = e;
            return Ok((TNode::Tok { kind: kind.clone(), r: i, idx: *x, s, e }, i + 1));
        }
        let last = i + *x;
        if last > end {
            return Err(format!("rule node {i} ({kind}) with offset {x} ends at {last}, beyond its parent's end {end}"));
        }
        let before = *prev_end;
        let mut ch = vec![];
        let mut j = i + 1;
        while j <= last {
            let (c, nj) = build(flat, spans, j, last, prev_end)?;
            ch.push(c);
            j = nj;
        }
        let mut leaves = vec![];
        for c in &ch {
            c.leaves(&mut leaves);
        }
        let (s, e) = match (leaves.first(), leaves.last()) {
            (Some(a), Some(b)) => (a.span().0, b.span().1),
            _ => (before, before),
        };
        Ok((TNode::Rule { kind: kind.clone(), r: i, s, e, ch }, last + 1))
    }
    if flat.is_empty() {
        return Err("empty node vector".into());
    }
    if flat[0].0 {
        return Err("node 0 is a token".into());
    }
    if flat[0].2 != flat.len() - 1 {
        return Err(format!("root extent {} is not the whole vector ({} nodes)", flat[0].2, flat.len()));
    }
    let mut prev_end = 0;
    let (t, next) = build(flat, spans, 0, flat.len() - 1, &mut prev_end)?;
    if next != flat.len() {
        return Err("root does not cover the vector".into());
    }
    Ok(t)
}

/// C02 (a): structural validity.
pub fn check_wellformed(g: &Grammar, req: &Req, rep: &Reply) -> Result<(), String> {
    let Some(tree) = &rep.tree else { return Err("no tree".into()) };
    let spans = lab::spans(&req.tokens, req.enc);
    let built = tree_from_flat(&rep.flat, &spans)?;
    if &built != tree {
        return Err(format!("tree read through children()/span() differs from the tree implied by the node offsets: children() gives {} but offsets give {}", tree.dump(), built.dump()));
    }
    let skipped = |kind: &str| kind == "Error" || g.skip.iter().any(|t| g.tokens[*t].name == kind);
    let mut err = None;
    fn rec(n: &TNode, is_root: bool, skipped: &dyn Fn(&str) -> bool, err: &mut Option<String>) {
        if let TNode::Rule { kind, ch, s, e, r } = n {
            let mut prev = *s;
            for c in ch {
                let (cs, ce) = c.span();
                if cs < *s || ce > *e || cs > ce {
                    err.get_or_insert(format!("child span {cs}..{ce} outside parent {kind} {s}..{e} (node {r})"));
                }
                if cs < prev {
                    err.get_or_insert(format!("child spans of {kind} (node {r}) are not ordered"));
                }
                prev = cs.max(prev);
                rec(c, false, skipped, err);
            }
            if !is_root {
                // structural reading: the first / last child is not a skipped token (an empty
                // rule node that was opened behind trivia legitimately follows that trivia)
                for l in [ch.first(), ch.last()].into_iter().flatten() {
                    if let TNode::Tok { kind: tk, idx, .. } = l {
                        if skipped(tk) {
                            err.get_or_insert(format!("rule node {kind} (node {r}) starts or ends with skipped token {tk}@{idx}"));
                        }
                    }
                }
            }
        }
    }
    rec(tree, true, &skipped, &mut err);
    match err {
        Some(e) => Err(e),
        None => Ok(()),
    }
}

/// C02 created-callback audit and C08 accounting: every announced node has the announced kind
/// and its subtree at announcement time survives unchanged in the final tree unless a deleted
/// announcement for it followed. Returns (announced, deleted) counts.
pub fn check_callbacks(rep: &Reply, accounting: bool) -> Result<(usize, usize), String> {
    let Some(tree) = &rep.tree else { return Err("no tree".into()) };
    let mut fin: BTreeMap<String, i64> = BTreeMap::new();
    tree.walk(&mut |n| {
        if matches!(n, TNode::Rule { .. }) {
            *fin.entry(n.dump()).or_default() += 1;
        }
    });
    let mut created: BTreeMap<String, i64> = BTreeMap::new();
    let mut deleted: BTreeMap<String, i64> = BTreeMap::new();
    let (mut nc, mut nd) = (0, 0);
    for e in &rep.log {
        match e {
            Event::Created(kind, r, ok, dump) => {
                nc += 1;
                if !*ok {
                    return Err(format!("create_node_{kind} announced node {r}, which is not a closed `{kind}` rule node at that instant"));
                }
                if dump == "<omitted>" {
                    // the runner stopped dumping subtrees (size cap): counted, not audited
                    continue;
                }
                if dump == "<reading the announced node panics>" {
                    return Err(format!("create_node_{kind} announced node {r}; reading its children at that instant panics (extent beyond the node vector)"));
                }
                *created.entry(dump.clone()).or_default() += 1;
            }
            Event::Deleted(_, _, dump) => {
                nd += 1;
                *deleted.entry(dump.clone()).or_default() += 1;
            }
            _ => {}
        }
    }
    if !accounting {
        // nodes may legitimately vanish by backtracking; who announces that is C08's business
        return Ok((nc, nd));
    }
    for (d, c) in &created {
        let f = fin.get(d).copied().unwrap_or(0);
        let x = deleted.get(d).copied().unwrap_or(0);
        if c - x > f {
            return Err(format!("node announced as created with subtree `{d}` ({c}x, deleted {x}x) occurs {f}x in the final tree"));
        }
    }
    Ok((nc, nd))
}
