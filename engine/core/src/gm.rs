//! Grammar model (GM): an AST of our own for `.llw` grammars, deliberately independent of
//! lelwel's CST, plus a flat arena view and printers that return byte spans per node.

use std::fmt::Write as _;

#[derive(Clone, Debug, PartialEq, Eq, Hash)]
pub enum Regex {
    /// token reference: (token index, written as symbol?)
    Tok(usize, bool),
    Ref(usize),
    Concat(Vec<Regex>),
    Alt(Vec<Regex>),
    Choice(Vec<Regex>),
    Opt(Box<Regex>),
    Star(Box<Regex>),
    Plus(Box<Regex>),
    Paren(Option<Box<Regex>>),
    /// `?n` (Some) or `?t` (None)
    Pred(Option<u32>),
    Action(u32),
    Assert(u32),
    Rename(String),
    Elide,
    Marker(u32),
    Create(Option<u32>, Option<String>),
    Commit,
    Return,
}

#[derive(Clone, Debug, PartialEq, Eq, Hash)]
pub struct TokenDecl {
    pub name: String,
    /// raw symbol text between the quotes (escapes as written)
    pub symbol: Option<String>,
}

#[derive(Clone, Debug, PartialEq, Eq, Hash)]
pub struct Rule {
    pub name: String,
    pub elided: bool,
    pub body: Option<Regex>,
}

#[derive(Clone, Debug, PartialEq, Eq, Hash)]
pub enum Decl {
    Tokens(Vec<usize>),
    Skip(Vec<(usize, bool)>),
    Right(Vec<(usize, bool)>),
    Start,
    Part(Vec<usize>),
    Rule(usize),
}

#[derive(Clone, Debug, PartialEq, Eq, Hash)]
pub struct Grammar {
    pub tokens: Vec<TokenDecl>,
    pub skip: Vec<usize>,
    pub right: Vec<usize>,
    pub start: usize,
    pub parts: Vec<usize>,
    pub rules: Vec<Rule>,
    /// explicit declaration order; None = canonical
    pub order: Option<Vec<Decl>>,
}

impl Regex {
    /// precedence level: 0 alt, 1 choice, 2 concat, 3 postfix/atom
    pub fn level(&self) -> u8 {
        match self {
            Regex::Alt(_) => 0,
            Regex::Choice(_) => 1,
            Regex::Concat(_) => 2,
            _ => 3,
        }
    }
    pub fn children(&self) -> Vec<&Regex> {
        match self {
            Regex::Concat(v) | Regex::Alt(v) | Regex::Choice(v) => v.iter().collect(),
            Regex::Opt(b) | Regex::Star(b) | Regex::Plus(b) => vec![b],
            Regex::Paren(Some(b)) => vec![b],
            _ => vec![],
        }
    }
    pub fn children_mut(&mut self) -> Vec<&mut Regex> {
        match self {
            Regex::Concat(v) | Regex::Alt(v) | Regex::Choice(v) => v.iter_mut().collect(),
            Regex::Opt(b) | Regex::Star(b) | Regex::Plus(b) => vec![b],
            Regex::Paren(Some(b)) => vec![b],
            _ => vec![],
        }
    }
    pub fn size(&self) -> usize {
        1 + self.children().iter().map(|c| c.size()).sum::<usize>()
    }
    pub fn walk<'a>(&'a self, f: &mut dyn FnMut(&'a Regex)) {
        f(self);
        for c in self.children() {
            c.walk(f);
        }
    }
    pub fn any(&self, p: &dyn Fn(&Regex) -> bool) -> bool {
        if p(self) {
            return true;
        }
        self.children().iter().any(|c| c.any(p))
    }
    /// Bring into the normal form the front end can produce: operands at the proper precedence
    /// level (parenthesised otherwise), Concat/Alt/Choice with >= 2 operands.
    pub fn normalize(self) -> Regex {
        fn wrap(r: Regex, min: u8) -> Regex {
            if r.level() < min { Regex::Paren(Some(Box::new(r))) } else { r }
        }
        match self {
            Regex::Alt(v) => {
                let mut v: Vec<Regex> = v.into_iter().map(|r| wrap(r.normalize(), 1)).collect();
                if v.len() == 1 { v.pop().unwrap() } else if v.is_empty() { Regex::Paren(None) } else { Regex::Alt(v) }
            }
            Regex::Choice(v) => {
                let mut v: Vec<Regex> = v.into_iter().map(|r| wrap(r.normalize(), 2)).collect();
                if v.len() == 1 { v.pop().unwrap() } else if v.is_empty() { Regex::Paren(None) } else { Regex::Choice(v) }
            }
            Regex::Concat(v) => {
                let mut v: Vec<Regex> = v.into_iter().map(|r| wrap(r.normalize(), 3)).collect();
                if v.len() == 1 { v.pop().unwrap() } else if v.is_empty() { Regex::Paren(None) } else { Regex::Concat(v) }
            }
            Regex::Opt(b) => Regex::Opt(Box::new(b.normalize())),
            Regex::Star(b) => Regex::Star(Box::new(wrap(b.normalize(), 3))),
            Regex::Plus(b) => Regex::Plus(Box::new(wrap(b.normalize(), 3))),
            Regex::Paren(Some(b)) => Regex::Paren(Some(Box::new(b.normalize()))),
            r => r,
        }
    }
}

/// Node kinds of the flat view.
#[derive(Clone, Debug, PartialEq, Eq, Hash)]
pub enum K {
    Tok(usize),
    Ref(usize),
    Concat,
    Alt,
    Choice,
    Opt,
    Star,
    Plus,
    Paren,
    Pred(Option<u32>),
    Action(u32),
    Assert(u32),
    Rename(String),
    Elide,
    Marker(u32),
    Create(Option<u32>, Option<String>),
    Commit,
    Return,
}

impl K {
    pub fn is_marker_like(&self) -> bool {
        matches!(
            self,
            K::Pred(_) | K::Action(_) | K::Assert(_) | K::Rename(_) | K::Elide | K::Marker(_) | K::Create(..) | K::Commit | K::Return
        )
    }
    pub fn name(&self) -> &'static str {
        match self {
            K::Tok(_) => "tok",
            K::Ref(_) => "ref",
            K::Concat => "concat",
            K::Alt => "alt",
            K::Choice => "choice",
            K::Opt => "opt",
            K::Star => "star",
            K::Plus => "plus",
            K::Paren => "paren",
            K::Pred(_) => "pred",
            K::Action(_) => "action",
            K::Assert(_) => "assert",
            K::Rename(_) => "rename",
            K::Elide => "elide",
            K::Marker(_) => "marker",
            K::Create(..) => "create",
            K::Commit => "commit",
            K::Return => "return",
        }
    }
}

#[derive(Clone, Debug)]
pub struct FNode {
    pub kind: K,
    pub children: Vec<usize>,
    pub rule: usize,
    pub parent: Option<usize>,
}

/// Flat arena: node ids are preorder indices, rules in index order.
#[derive(Clone, Debug)]
pub struct Flat {
    pub nodes: Vec<FNode>,
    pub rule_body: Vec<Option<usize>>,
}

impl Flat {
    pub fn new(g: &Grammar) -> Flat {
        fn rec(r: &Regex, rule: usize, parent: Option<usize>, nodes: &mut Vec<FNode>) -> usize {
            let id = nodes.len();
            let kind = match r {
                Regex::Tok(t, _) => K::Tok(*t),
                Regex::Ref(r) => K::Ref(*r),
                Regex::Concat(_) => K::Concat,
                Regex::Alt(_) => K::Alt,
                Regex::Choice(_) => K::Choice,
                Regex::Opt(_) => K::Opt,
                Regex::Star(_) => K::Star,
                Regex::Plus(_) => K::Plus,
                Regex::Paren(_) => K::Paren,
                Regex::Pred(p) => K::Pred(*p),
                Regex::Action(n) => K::Action(*n),
                Regex::Assert(n) => K::Assert(*n),
                Regex::Rename(s) => K::Rename(s.clone()),
                Regex::Elide => K::Elide,
                Regex::Marker(n) => K::Marker(*n),
                Regex::Create(i, n) => K::Create(*i, n.clone()),
                Regex::Commit => K::Commit,
                Regex::Return => K::Return,
            };
            nodes.push(FNode { kind, children: vec![], rule, parent });
            let mut ch = vec![];
            for c in r.children() {
                ch.push(rec(c, rule, Some(id), nodes));
            }
            nodes[id].children = ch;
            id
        }
        let mut nodes = vec![];
        let mut rule_body = vec![];
        for (i, r) in g.rules.iter().enumerate() {
            rule_body.push(r.body.as_ref().map(|b| rec(b, i, None, &mut nodes)));
        }
        Flat { nodes, rule_body }
    }
    /// strip parens: the node that a Paren chain finally wraps (None for `()`)
    pub fn unparen(&self, mut n: usize) -> Option<usize> {
        loop {
            if self.nodes[n].kind == K::Paren {
                match self.nodes[n].children.first() {
                    Some(c) => n = *c,
                    None => return None,
                }
            } else {
                return Some(n);
            }
        }
    }
}

impl Grammar {
    pub fn canonical_order(&self) -> Vec<Decl> {
        let mut v = vec![];
        if !self.tokens.is_empty() {
            v.push(Decl::Tokens((0..self.tokens.len()).collect()));
        }
        if !self.skip.is_empty() {
            v.push(Decl::Skip(self.skip.iter().map(|t| (*t, false)).collect()));
        }
        if !self.right.is_empty() {
            v.push(Decl::Right(self.right.iter().map(|t| (*t, false)).collect()));
        }
        v.push(Decl::Start);
        if !self.parts.is_empty() {
            v.push(Decl::Part(self.parts.clone()));
        }
        for i in 0..self.rules.len() {
            v.push(Decl::Rule(i));
        }
        v
    }
    pub fn decls(&self) -> Vec<Decl> {
        self.order.clone().unwrap_or_else(|| self.canonical_order())
    }
    pub fn size(&self) -> usize {
        self.rules.iter().map(|r| r.body.as_ref().map_or(0, |b| b.size()) + 1).sum::<usize>() + self.tokens.len()
    }
    pub fn any_regex(&self, p: &dyn Fn(&Regex) -> bool) -> bool {
        self.rules.iter().any(|r| r.body.as_ref().is_some_and(|b| b.any(p)))
    }
    pub fn feature_labels(&self) -> Vec<&'static str> {
        let mut v = vec![];
        let mut add = |name: &'static str, p: &dyn Fn(&Regex) -> bool| {
            if self.any_regex(p) {
                v.push(name);
            }
        };
        add("alt", &|r| matches!(r, Regex::Alt(_)));
        add("choice", &|r| matches!(r, Regex::Choice(_)));
        add("opt", &|r| matches!(r, Regex::Opt(_)));
        add("star", &|r| matches!(r, Regex::Star(_)));
        add("plus", &|r| matches!(r, Regex::Plus(_)));
        add("paren", &|r| matches!(r, Regex::Paren(_)));
        add("pred", &|r| matches!(r, Regex::Pred(Some(_))));
        add("pred_t", &|r| matches!(r, Regex::Pred(None)));
        add("action", &|r| matches!(r, Regex::Action(_)));
        add("assert", &|r| matches!(r, Regex::Assert(_)));
        add("rename", &|r| matches!(r, Regex::Rename(_)));
        add("elide", &|r| matches!(r, Regex::Elide));
        add("marker", &|r| matches!(r, Regex::Marker(_)));
        add("create", &|r| matches!(r, Regex::Create(Some(_), _)));
        add("create_whole", &|r| matches!(r, Regex::Create(None, _)));
        add("commit", &|r| matches!(r, Regex::Commit));
        add("return", &|r| matches!(r, Regex::Return));
        if self.rules.iter().any(|r| r.elided) {
            v.push("rule_elided");
        }
        if !self.parts.is_empty() {
            v.push("parts");
        }
        if !self.skip.is_empty() {
            v.push("skip");
        }
        if !self.right.is_empty() {
            v.push("right");
        }
        if self.is_pratt_any() {
            v.push("pratt");
        }
        v
    }
    /// rule i has a directly left-recursive branch (by the textual criterion of the README)
    pub fn is_pratt(&self, i: usize) -> bool {
        if let Some(Regex::Alt(v)) = &self.rules[i].body {
            v.iter().any(|b| {
                if let Regex::Concat(c) = b {
                    c.iter()
                        .find(|x| !matches!(x, Regex::Pred(_) | Regex::Rename(_) | Regex::Elide | Regex::Action(_)))
                        .is_some_and(|x| *x == Regex::Ref(i))
                } else {
                    false
                }
            })
        } else {
            false
        }
    }
    pub fn is_pratt_any(&self) -> bool {
        (0..self.rules.len()).any(|i| self.is_pratt(i))
    }
    pub fn tok_ref_text(&self, t: usize, by_symbol: bool) -> String {
        let d = &self.tokens[t];
        match (&d.symbol, by_symbol) {
            (Some(s), true) => format!("'{s}'"),
            _ => d.name.clone(),
        }
    }
}

/// One lexeme of the printed grammar.
#[derive(Clone, Debug)]
pub struct Lex {
    pub text: String,
}

#[derive(Clone, Debug, Default)]
pub struct Printed {
    pub text: String,
    /// byte span per flat node id
    pub spans: Vec<(usize, usize)>,
    /// byte span per rule declaration (name .. `;`)
    pub rule_spans: Vec<(usize, usize)>,
    /// byte span of each lexeme
    pub lex_spans: Vec<(usize, usize)>,
    /// byte span of each top-level declaration in printed order
    pub decl_spans: Vec<(usize, usize)>,
}

pub struct LexList {
    pub lexes: Vec<Lex>,
    /// per flat node: (first lexeme, last lexeme)
    pub node_lex: Vec<(usize, usize)>,
    pub rule_lex: Vec<(usize, usize)>,
    pub decl_lex: Vec<(usize, usize)>,
    /// index of the lexeme that ends a declaration (`;`)
    pub decl_end: Vec<usize>,
}

pub fn lex_list(g: &Grammar) -> LexList {
    let flat = Flat::new(g);
    let mut lexes: Vec<Lex> = vec![];
    let mut node_lex = vec![(0usize, 0usize); flat.nodes.len()];
    let mut rule_lex = vec![(0usize, 0usize); g.rules.len()];
    let mut decl_lex = vec![];
    let mut decl_end = vec![];
    let push = |lexes: &mut Vec<Lex>, s: &str| {
        lexes.push(Lex { text: s.to_string() });
    };
    fn pr(g: &Grammar, r: &Regex, id: &mut usize, lexes: &mut Vec<Lex>, node_lex: &mut Vec<(usize, usize)>) {
        let my = *id;
        *id += 1;
        let first = lexes.len();
        let p = |lexes: &mut Vec<Lex>, s: String| lexes.push(Lex { text: s });
        match r {
            Regex::Tok(t, sym) => p(lexes, g.tok_ref_text(*t, *sym)),
            Regex::Ref(r) => p(lexes, g.rules[*r].name.clone()),
            Regex::Concat(v) => {
                for c in v {
                    pr(g, c, id, lexes, node_lex);
                }
            }
            Regex::Alt(v) => {
                for (i, c) in v.iter().enumerate() {
                    if i > 0 {
                        p(lexes, "|".into());
                    }
                    pr(g, c, id, lexes, node_lex);
                }
            }
            Regex::Choice(v) => {
                for (i, c) in v.iter().enumerate() {
                    if i > 0 {
                        p(lexes, "/".into());
                    }
                    pr(g, c, id, lexes, node_lex);
                }
            }
            Regex::Opt(b) => {
                p(lexes, "[".into());
                pr(g, b, id, lexes, node_lex);
                p(lexes, "]".into());
            }
            Regex::Star(b) => {
                pr(g, b, id, lexes, node_lex);
                p(lexes, "*".into());
            }
            Regex::Plus(b) => {
                pr(g, b, id, lexes, node_lex);
                p(lexes, "+".into());
            }
            Regex::Paren(b) => {
                p(lexes, "(".into());
                if let Some(b) = b {
                    pr(g, b, id, lexes, node_lex);
                }
                p(lexes, ")".into());
            }
            Regex::Pred(Some(n)) => p(lexes, format!("?{n}")),
            Regex::Pred(None) => p(lexes, "?t".into()),
            Regex::Action(n) => p(lexes, format!("#{n}")),
            Regex::Assert(n) => p(lexes, format!("!{n}")),
            Regex::Rename(s) => p(lexes, format!("@{s}")),
            Regex::Elide => p(lexes, "^".into()),
            Regex::Marker(n) => p(lexes, format!("<{n}")),
            Regex::Create(i, n) => {
                let mut s = String::new();
                if let Some(i) = i {
                    write!(s, "{i}").unwrap();
                }
                s.push('>');
                if let Some(n) = n {
                    s.push_str(n);
                }
                p(lexes, s)
            }
            Regex::Commit => p(lexes, "~".into()),
            Regex::Return => p(lexes, "&".into()),
        }
        node_lex[my] = (first, lexes.len() - 1);
    }
    // base ids per rule
    let mut base = vec![0usize; g.rules.len()];
    let mut acc = 0;
    for (i, r) in g.rules.iter().enumerate() {
        base[i] = acc;
        acc += r.body.as_ref().map_or(0, |b| b.size());
    }
    let tokref = |t: usize, sym: bool| g.tok_ref_text(t, sym);
    for d in g.decls() {
        let first = lexes.len();
        match d {
            Decl::Tokens(ts) => {
                push(&mut lexes, "token");
                for t in ts {
                    push(&mut lexes, &g.tokens[t].name);
                    if let Some(s) = &g.tokens[t].symbol {
                        push(&mut lexes, "=");
                        push(&mut lexes, &format!("'{s}'"));
                    }
                }
                push(&mut lexes, ";");
            }
            Decl::Skip(ts) => {
                push(&mut lexes, "skip");
                for (t, s) in ts {
                    push(&mut lexes, &tokref(t, s));
                }
                push(&mut lexes, ";");
            }
            Decl::Right(ts) => {
                push(&mut lexes, "right");
                for (t, s) in ts {
                    push(&mut lexes, &tokref(t, s));
                }
                push(&mut lexes, ";");
            }
            Decl::Start => {
                push(&mut lexes, "start");
                push(&mut lexes, &g.rules[g.start].name);
                push(&mut lexes, ";");
            }
            Decl::Part(rs) => {
                push(&mut lexes, "part");
                for r in rs {
                    push(&mut lexes, &g.rules[r].name);
                }
                push(&mut lexes, ";");
            }
            Decl::Rule(i) => {
                let r = &g.rules[i];
                push(&mut lexes, &r.name);
                if r.elided {
                    push(&mut lexes, "^");
                }
                push(&mut lexes, ":");
                if let Some(b) = &r.body {
                    let mut id = base[i];
                    pr(g, b, &mut id, &mut lexes, &mut node_lex);
                }
                push(&mut lexes, ";");
                rule_lex[i] = (first, lexes.len() - 1);
            }
        }
        decl_lex.push((first, lexes.len() - 1));
        decl_end.push(lexes.len() - 1);
    }
    LexList { lexes, node_lex, rule_lex, decl_lex, decl_end }
}

const PUNCT: &[&str] = &[":", ";", "=", "(", ")", "[", "]", "|", "*", "+", "^", "~", "&", "/"];

/// May two lexemes be written without any separator? Decided by a whitelist, not by the lexer.
pub fn can_fuse(left: &str, right: &str) -> bool {
    let lp = PUNCT.contains(&left);
    let rp = PUNCT.contains(&right);
    if !(lp || rp) {
        return false;
    }
    if left == "/" && (right == "/" || right == "*" || right.starts_with('/')) {
        return false;
    }
    true
}

/// Join lexemes with the given gaps (gaps[i] is written before lexeme i; gaps[n] at the end).
pub fn join(ll: &LexList, gaps: &[String]) -> Printed {
    let mut text = String::new();
    let mut lex_spans = vec![];
    for (i, l) in ll.lexes.iter().enumerate() {
        text.push_str(&gaps[i]);
        let s = text.len();
        text.push_str(&l.text);
        lex_spans.push((s, text.len()));
    }
    text.push_str(&gaps[ll.lexes.len()]);
    let conv = |(a, b): &(usize, usize)| (lex_spans[*a].0, lex_spans[*b].1);
    Printed {
        spans: ll.node_lex.iter().map(conv).collect(),
        rule_spans: ll.rule_lex.iter().map(conv).collect(),
        decl_spans: ll.decl_lex.iter().map(conv).collect(),
        lex_spans,
        text,
    }
}

/// Canonical layout: one space between lexemes, newline after each declaration.
pub fn print(g: &Grammar) -> Printed {
    let ll = lex_list(g);
    let n = ll.lexes.len();
    let mut gaps = vec![String::new(); n + 1];
    for i in 1..n {
        gaps[i] = if ll.decl_end.contains(&(i - 1)) { "\n".to_string() } else { " ".to_string() };
    }
    gaps[n] = "\n".to_string();
    join(&ll, &gaps)
}

/// Compact textual rendering of a regex (for samples / replay files).
pub fn regex_text(g: &Grammar, r: &Regex) -> String {
    let tmp = Grammar { rules: vec![Rule { name: "x".into(), elided: false, body: Some(r.clone()) }], start: 0, parts: vec![], order: None, ..g.clone() };
    let _ = tmp;
    let mut lexes = vec![];
    fn pr(g: &Grammar, r: &Regex, out: &mut Vec<String>) {
        match r {
            Regex::Tok(t, s) => out.push(g.tok_ref_text(*t, *s)),
            Regex::Ref(r) => out.push(g.rules.get(*r).map_or(format!("<r{r}>"), |x| x.name.clone())),
            Regex::Concat(v) => v.iter().for_each(|c| pr(g, c, out)),
            Regex::Alt(v) => {
                for (i, c) in v.iter().enumerate() {
                    if i > 0 {
                        out.push("|".into());
                    }
                    pr(g, c, out);
                }
            }
            Regex::Choice(v) => {
                for (i, c) in v.iter().enumerate() {
                    if i > 0 {
                        out.push("/".into());
                    }
                    pr(g, c, out);
                }
            }
            Regex::Opt(b) => {
                out.push("[".into());
                pr(g, b, out);
                out.push("]".into());
            }
            Regex::Star(b) => {
                pr(g, b, out);
                out.push("*".into());
            }
            Regex::Plus(b) => {
                pr(g, b, out);
                out.push("+".into());
            }
            Regex::Paren(b) => {
                out.push("(".into());
                if let Some(b) = b {
                    pr(g, b, out);
                }
                out.push(")".into());
            }
            Regex::Pred(Some(n)) => out.push(format!("?{n}")),
            Regex::Pred(None) => out.push("?t".into()),
            Regex::Action(n) => out.push(format!("#{n}")),
            Regex::Assert(n) => out.push(format!("!{n}")),
            Regex::Rename(s) => out.push(format!("@{s}")),
            Regex::Elide => out.push("^".into()),
            Regex::Marker(n) => out.push(format!("<{n}")),
            Regex::Create(i, n) => out.push(format!("{}>{}", i.map_or(String::new(), |i| i.to_string()), n.clone().unwrap_or_default())),
            Regex::Commit => out.push("~".into()),
            Regex::Return => out.push("&".into()),
        }
    }
    pr(g, r, &mut lexes);
    lexes.join(" ")
}

/// `&` (return) operators that can be reached before their rule has consumed a token. If the
/// parser enters such a rule in the active-error state from a repetition, the rule returns at
/// once without consuming and the repetition calls it again: the parser spins (known finding of
/// C03). Returns a description per occurrence.
pub fn leading_returns(g: &Grammar) -> Vec<String> {
    fn nul(r: &Regex, nr: &[bool]) -> bool {
        match r {
            Regex::Tok(..) => false,
            Regex::Ref(x) => nr[*x],
            Regex::Concat(v) => v.iter().all(|c| nul(c, nr)),
            Regex::Alt(v) | Regex::Choice(v) => v.iter().any(|c| nul(c, nr)),
            Regex::Opt(_) | Regex::Star(_) => true,
            Regex::Plus(b) => nul(b, nr),
            Regex::Paren(Some(b)) => nul(b, nr),
            _ => true,
        }
    }
    let mut nr: Vec<bool> = g.rules.iter().map(|r| r.body.is_none()).collect();
    loop {
        let mut changed = false;
        for (i, r) in g.rules.iter().enumerate() {
            if let Some(b) = &r.body {
                if !nr[i] && nul(b, &nr) {
                    nr[i] = true;
                    changed = true;
                }
            }
        }
        if !changed {
            break;
        }
    }
    /// `pre`: a token has definitely been consumed by this rule application before `r`;
    /// returns the same fact for the position behind `r`
    fn walk(r: &Regex, pre: bool, nr: &[bool], rule: &str, out: &mut Vec<String>) -> bool {
        match r {
            Regex::Tok(..) => true,
            Regex::Ref(x) => pre || !nr[*x],
            Regex::Concat(v) => v.iter().fold(pre, |p, c| walk(c, p, nr, rule, out)),
            Regex::Alt(v) | Regex::Choice(v) => {
                let mut all = true;
                for c in v {
                    all &= walk(c, pre, nr, rule, out);
                }
                all
            }
            Regex::Opt(b) | Regex::Star(b) => {
                walk(b, pre, nr, rule, out);
                pre
            }
            Regex::Plus(b) | Regex::Paren(Some(b)) => walk(b, pre, nr, rule, out),
            Regex::Return => {
                if !pre {
                    out.push(format!("`&` in rule {rule} can be reached before the rule consumed a token"));
                }
                pre
            }
            _ => pre,
        }
    }
    let mut out = vec![];
    for r in &g.rules {
        if let Some(b) = &r.body {
            walk(b, false, &nr, &r.name, &mut out);
        }
    }
    out
}

/// Shapes in which a node creation reaches across another open marker or out of an undoable
/// ordered-choice attempt (lelwel's static checks accept them; the tree builder's insertion
/// invalidates positions recorded earlier). Returns a description per occurrence.
pub fn crossing_shapes(g: &Grammar) -> Vec<String> {
    fn walk(r: &Regex, open: &mut Vec<u32>, try_depth_markers: &mut Vec<usize>, in_try: bool, created_later: &dyn Fn(u32) -> bool, out: &mut Vec<String>) {
        match r {
            // a marker that no creation refers to holds a position nobody reads
            Regex::Marker(n) if created_later(*n) => open.push(*n),
            Regex::Marker(_) => {}
            Regex::Create(None, _) => {
                if !open.is_empty() {
                    out.push(format!("unindexed creation while marker <{} is open", open.last().unwrap()));
                }
                if in_try {
                    out.push("unindexed creation inside an undoable alternative".into());
                }
            }
            Regex::Create(Some(k), _) => {
                if let Some(pos) = open.iter().rposition(|x| x == k) {
                    if open[pos + 1..].iter().any(|m| created_later(*m)) {
                        out.push(format!("creation {k}> closes over the still open marker <{}", open[pos + 1]));
                    }
                    if in_try && try_depth_markers.last().is_some_and(|base| pos < *base) {
                        out.push(format!("creation {k}> inside an undoable alternative for a marker set outside it"));
                    }
                }
            }
            Regex::Concat(v) => {
                let base = open.len();
                let mut t = in_try;
                for c in v {
                    walk(c, open, try_depth_markers, t, created_later, out);
                    if matches!(c, Regex::Commit) {
                        t = false;
                    }
                }
                open.truncate(base);
            }
            Regex::Choice(v) => {
                let n = v.len();
                for (i, c) in v.iter().enumerate() {
                    let mut o = open.clone();
                    if i + 1 < n {
                        try_depth_markers.push(o.len());
                        walk(c, &mut o, try_depth_markers, true, created_later, out);
                        try_depth_markers.pop();
                    } else {
                        walk(c, &mut o, try_depth_markers, in_try, created_later, out);
                    }
                }
            }
            _ => {
                for c in r.children() {
                    let mut o = open.clone();
                    walk(c, &mut o, try_depth_markers, in_try, created_later, out);
                }
            }
        }
    }
    let mut out = vec![];
    // rules reachable inside an undoable attempt start in try mode
    let in_choice = {
        let mut inc = vec![false; g.rules.len()];
        fn mark(r: &Regex, active: bool, inc: &mut Vec<bool>, ch: &mut bool) {
            match r {
                Regex::Ref(x) => {
                    if active && !inc[*x] {
                        inc[*x] = true;
                        *ch = true;
                    }
                }
                Regex::Concat(v) => {
                    let mut a = active;
                    for c in v {
                        mark(c, a, inc, ch);
                        if matches!(c, Regex::Commit) {
                            a = false;
                        }
                    }
                }
                Regex::Choice(v) => {
                    for (i, c) in v.iter().enumerate() {
                        mark(c, if i + 1 < v.len() { true } else { active }, inc, ch);
                    }
                }
                _ => r.children().into_iter().for_each(|c| mark(c, active, inc, ch)),
            }
        }
        loop {
            let mut ch = false;
            for i in 0..g.rules.len() {
                if let Some(b) = &g.rules[i].body {
                    let a = inc[i];
                    mark(b, a, &mut inc, &mut ch);
                }
            }
            if !ch {
                break;
            }
        }
        inc
    };
    for (i, rule) in g.rules.iter().enumerate() {
        let Some(b) = &rule.body else { continue };
        let created: Vec<u32> = {
            let mut v = vec![];
            b.walk(&mut |x| {
                if let Regex::Create(Some(k), _) = x {
                    v.push(*k);
                }
            });
            v
        };
        let created_later = |m: u32| created.contains(&m);
        let mut open = vec![];
        let mut tdm = if in_choice[i] { vec![usize::MAX] } else { vec![] };
        // inside a rule that runs in try mode, the implicit start marker lies outside the attempt
        walk(b, &mut open, &mut tdm, in_choice[i], &created_later, &mut out);
    }
    out
}

/// Index-free structural rendering (S-expression with names): two grammars are the same
/// grammar iff these strings are equal, however their tokens / rules are numbered.
pub fn named(g: &Grammar) -> String {
    fn rx(g: &Grammar, r: &Regex, out: &mut String) {
        match r {
            Regex::Tok(t, s) => out.push_str(&format!("(tok {}{})", g.tokens[*t].name, if *s { format!(" sym '{}'", g.tokens[*t].symbol.clone().unwrap_or_default()) } else { String::new() })),
            Regex::Ref(x) => out.push_str(&format!("(ref {})", g.rules[*x].name)),
            Regex::Concat(v) | Regex::Alt(v) | Regex::Choice(v) => {
                out.push_str(match r {
                    Regex::Concat(_) => "(concat",
                    Regex::Alt(_) => "(alt",
                    _ => "(choice",
                });
                for c in v {
                    out.push(' ');
                    rx(g, c, out);
                }
                out.push(')');
            }
            Regex::Opt(b) | Regex::Star(b) | Regex::Plus(b) => {
                out.push_str(match r {
                    Regex::Opt(_) => "(opt ",
                    Regex::Star(_) => "(star ",
                    _ => "(plus ",
                });
                rx(g, b, out);
                out.push(')');
            }
            Regex::Paren(Some(b)) => {
                out.push_str("(paren ");
                rx(g, b, out);
                out.push(')');
            }
            Regex::Paren(None) => out.push_str("(paren)"),
            other => out.push_str(&format!("{other:?}")),
        }
    }
    let mut s = String::new();
    for d in g.decls() {
        match d {
            Decl::Tokens(ts) => {
                s.push_str("token");
                for t in ts {
                    s.push_str(&format!(" {}={:?}", g.tokens[t].name, g.tokens[t].symbol));
                }
            }
            Decl::Skip(ts) => {
                s.push_str("skip");
                for (t, y) in ts {
                    s.push_str(&format!(" {}{}", g.tokens[t].name, if y { "'" } else { "" }));
                }
            }
            Decl::Right(ts) => {
                s.push_str("right");
                for (t, y) in ts {
                    s.push_str(&format!(" {}{}", g.tokens[t].name, if y { "'" } else { "" }));
                }
            }
            Decl::Start => s.push_str(&format!("start {}", g.rules[g.start].name)),
            Decl::Part(rs) => {
                s.push_str("part");
                for r in rs {
                    s.push_str(&format!(" {}", g.rules[r].name));
                }
            }
            Decl::Rule(i) => {
                let r = &g.rules[i];
                s.push_str(&format!("rule {}{} ", r.name, if r.elided { "^" } else { "" }));
                match &r.body {
                    Some(b) => rx(g, b, &mut s),
                    None => s.push_str("(empty)"),
                }
            }
        }
        s.push('\n');
    }
    s
}
