//! Glue to the working-tree lelwel (path dependency on /repo): run the front end and semantic
//! pass on a text, read diagnostics and analysis sets keyed by source span, emit the parser.

use lelwel::frontend::ast::{self, AstNode, Named};
use lelwel::frontend::parser::{Cst, Diagnostic, NodeRef, Parser};
use lelwel::frontend::sema::{SemanticData, SemanticPass};
use std::collections::{BTreeMap, BTreeSet};
use std::path::Path;

#[derive(Clone, Debug, PartialEq, Eq, PartialOrd, Ord)]
pub struct LwLabel {
    pub primary: bool,
    pub start: usize,
    pub end: usize,
    pub message: String,
}

#[derive(Clone, Debug, PartialEq, Eq, PartialOrd, Ord)]
pub struct LwDiag {
    pub code: Option<String>,
    pub error: bool,
    pub message: String,
    pub labels: Vec<LwLabel>,
    pub notes: Vec<String>,
}

impl LwDiag {
    pub fn primary(&self) -> Option<(usize, usize)> {
        self.labels.iter().find(|l| l.primary).map(|l| (l.start, l.end))
    }
}

pub fn conv_diag(d: &Diagnostic) -> LwDiag {
    use codespan_reporting::diagnostic::{LabelStyle, Severity};
    LwDiag {
        code: d.code.clone(),
        error: matches!(d.severity, Severity::Error | Severity::Bug),
        message: d.message.clone(),
        labels: d
            .labels
            .iter()
            .map(|l| LwLabel { primary: l.style == LabelStyle::Primary, start: l.range.start, end: l.range.end, message: l.message.clone() })
            .collect(),
        notes: d.notes.clone(),
    }
}

pub type TokSet = BTreeSet<String>;

#[derive(Clone, Debug, Default, PartialEq, Eq)]
pub struct NodeSets {
    pub kind: String,
    pub first: Option<TokSet>,
    pub follow: Option<TokSet>,
    pub predict: Option<TokSet>,
    pub recovery: Option<TokSet>,
}

#[derive(Clone, Debug, Default)]
pub struct LwRun {
    pub diags: Vec<LwDiag>,
    /// number of diagnostics produced by lexing + parsing (before the semantic pass)
    pub syntax_diag_count: usize,
    pub accepted: bool,
    /// sets per regex node, keyed by byte span
    pub sets: BTreeMap<(usize, usize), NodeSets>,
    /// rule name -> used (code is generated for it)
    pub used_rules: BTreeMap<String, bool>,
    /// span of a rule declaration -> span of its body regex
    pub rule_spans: BTreeMap<(usize, usize), (usize, usize)>,
}

fn regex_kind(r: &ast::Regex) -> &'static str {
    match r {
        ast::Regex::OrderedChoice(_) => "choice",
        ast::Regex::Alternation(_) => "alt",
        ast::Regex::Concat(_) => "concat",
        ast::Regex::Paren(_) => "paren",
        ast::Regex::Optional(_) => "opt",
        ast::Regex::Star(_) => "star",
        ast::Regex::Plus(_) => "plus",
        ast::Regex::Name(_) => "name",
        ast::Regex::Symbol(_) => "symbol",
        ast::Regex::Predicate(_) => "pred",
        ast::Regex::Action(_) => "action",
        ast::Regex::Assertion(_) => "assert",
        ast::Regex::NodeRename(_) => "rename",
        ast::Regex::NodeElision(_) => "elide",
        ast::Regex::NodeMarker(_) => "marker",
        ast::Regex::NodeCreation(_) => "create",
        ast::Regex::Commit(_) => "commit",
        ast::Regex::Return(_) => "return",
    }
}

pub fn regex_children(cst: &Cst<'_>, r: ast::Regex) -> Vec<ast::Regex> {
    match r {
        ast::Regex::OrderedChoice(x) => x.operands(cst).collect(),
        ast::Regex::Alternation(x) => x.operands(cst).collect(),
        ast::Regex::Concat(x) => x.operands(cst).collect(),
        ast::Regex::Paren(x) => x.inner(cst).into_iter().collect(),
        ast::Regex::Optional(x) => x.operand(cst).into_iter().collect(),
        ast::Regex::Star(x) => x.operand(cst).into_iter().collect(),
        ast::Regex::Plus(x) => x.operand(cst).into_iter().collect(),
        _ => vec![],
    }
}

pub fn all_regexes(cst: &Cst<'_>) -> Vec<ast::Regex> {
    let mut out = vec![];
    fn rec(cst: &Cst<'_>, r: ast::Regex, out: &mut Vec<ast::Regex>) {
        out.push(r);
        for c in regex_children(cst, r) {
            rec(cst, c, out);
        }
    }
    if let Some(file) = ast::File::cast(cst, NodeRef::ROOT) {
        for rule in file.rule_decls(cst) {
            if let Some(r) = rule.regex(cst) {
                rec(cst, r, &mut out);
            }
        }
    }
    out
}

fn toks<'a>(s: &BTreeSet<lelwel::frontend::sema::TokenName<'a>>) -> TokSet {
    s.iter().map(|t| t.0.to_string()).collect()
}

/// Run front end + semantic pass, hand the borrowed results to `f`.
pub fn with_lelwel<R>(text: &str, f: impl FnOnce(&Cst<'_>, &SemanticData<'_>, &[Diagnostic], usize) -> R) -> R {
    let mut diags = vec![];
    let cst = Parser::new(text, &mut diags).parse(&mut diags);
    let n_syntax = diags.len();
    let sema = SemanticPass::run(&cst, &mut diags);
    f(&cst, &sema, &diags, n_syntax)
}

pub fn analyze(text: &str) -> LwRun {
    with_lelwel(text, |cst, sema, diags, n_syntax| {
        let mut run = LwRun { syntax_diag_count: n_syntax, ..Default::default() };
        run.diags = diags.iter().map(conv_diag).collect();
        run.accepted = !run.diags.iter().any(|d| d.error);
        for r in all_regexes(cst) {
            let span = cst.span(r.syntax());
            let id = r.syntax();
            run.sets.insert(
                (span.start, span.end),
                NodeSets {
                    kind: regex_kind(&r).to_string(),
                    first: sema.first_sets.get(&id).map(toks),
                    follow: sema.follow_sets.get(&id).map(toks),
                    predict: sema.predict_sets.get(&id).map(toks),
                    recovery: sema.recovery_sets.get(&id).map(toks),
                },
            );
        }
        if let Some(file) = ast::File::cast(cst, NodeRef::ROOT) {
            for rule in file.rule_decls(cst) {
                if let Some((name, _)) = rule.name(cst) {
                    run.used_rules.insert(name.to_string(), sema.used.contains(&rule.syntax()));
                }
                if let Some(body) = rule.regex(cst) {
                    let (d, b) = (cst.span(rule.syntax()), cst.span(body.syntax()));
                    run.rule_spans.insert((d.start, d.end), (b.start, b.end));
                }
            }
        }
        run
    })
}

/// Just the diagnostics (cheap path used by generators to learn lelwel's verdict).
pub fn diagnostics(text: &str) -> (Vec<LwDiag>, usize) {
    with_lelwel(text, |_, _, diags, n| (diags.iter().map(conv_diag).collect(), n))
}

pub fn accepted(text: &str) -> bool {
    !diagnostics(text).0.iter().any(|d| d.error)
}

/// Emit `generated.rs` for `text` into `dir` (input file is `dir/g.llw`) through the same code
/// path as `lelwel::compile` (Parser, SemanticPass, RustOutput::run). Returns Err(diags) if
/// lelwel rejects the grammar.
pub fn emit(text: &str, dir: &Path) -> Result<Vec<LwDiag>, Vec<LwDiag>> {
    std::fs::create_dir_all(dir).unwrap();
    let input = dir.join("g.llw");
    std::fs::write(&input, text).unwrap();
    with_lelwel(text, |cst, sema, diags, _| {
        let d: Vec<LwDiag> = diags.iter().map(conv_diag).collect();
        if d.iter().any(|x| x.error) {
            return Err(d);
        }
        lelwel::backend::rust::RustOutput::run(cst, sema, &input, dir).unwrap();
        Ok(d)
    })
}

/// recent panics of all threads (thread name, message) — analyzer threads of the IDE cache die silently
pub static PANIC_HISTORY: std::sync::Mutex<Vec<(String, String)>> = std::sync::Mutex::new(Vec::new());

pub static LAST_PANIC_GLOBAL: std::sync::Mutex<Option<String>> = std::sync::Mutex::new(None);

thread_local! {
    static LAST_PANIC: std::cell::RefCell<Option<String>> = const { std::cell::RefCell::new(None) };
}

/// Replace the default panic hook by one that records message + location per thread
/// (we report panics ourselves) — idempotent.
pub fn quiet_panics() {
    use std::sync::Once;
    static ONCE: Once = Once::new();
    ONCE.call_once(|| {
        std::panic::set_hook(Box::new(|info| {
            let msg = if let Some(s) = info.payload().downcast_ref::<&str>() {
                s.to_string()
            } else if let Some(s) = info.payload().downcast_ref::<String>() {
                s.clone()
            } else {
                "<non-string panic>".to_string()
            };
            let loc = info.location().map_or(String::new(), |l| format!(" at {}:{}", l.file(), l.line()));
            if let Ok(mut g) = LAST_PANIC_GLOBAL.lock() {
                *g = Some(format!("{msg}{loc}"));
            }
            if let Ok(mut h) = PANIC_HISTORY.lock() {
                let thread = std::thread::current().name().unwrap_or("unnamed").to_string();
                h.push((thread, format!("{msg}{loc}")));
                if h.len() > 64 {
                    h.remove(0);
                }
            }
            LAST_PANIC.with(|p| *p.borrow_mut() = Some(format!("{msg}{loc}")));
        }));
    });
}

pub fn catch<R>(f: impl FnOnce() -> R + std::panic::UnwindSafe) -> Result<R, String> {
    quiet_panics();
    std::panic::catch_unwind(f).map_err(|_| LAST_PANIC.with(|p| p.borrow_mut().take()).unwrap_or_else(|| "<panic>".to_string()))
}

/// Read a grammar text into the grammar model through lelwel's typed AST view. Returns None if
/// the text has syntax errors or unresolvable names.
pub fn import(text: &str) -> Option<crate::gm::Grammar> {
    use crate::gm::{self, Decl, Grammar, Regex as R};
    use lelwel::frontend::parser::{Node, Rule};
    let mut diags = vec![];
    let cst = Parser::new(text, &mut diags).parse(&mut diags);
    if !diags.is_empty() {
        return None;
    }
    let file = ast::File::cast(&cst, NodeRef::ROOT)?;
    let mut g = Grammar { tokens: vec![], skip: vec![], right: vec![], start: usize::MAX, parts: vec![], rules: vec![], order: None };
    for t in file.token_decls(&cst) {
        let name = t.name(&cst)?.0.to_string();
        let symbol = t.symbol(&cst).map(|(s, _)| s[1..s.len() - 1].to_string());
        g.tokens.push(gm::TokenDecl { name, symbol });
    }
    let rules: Vec<ast::RuleDecl> = file.rule_decls(&cst).collect();
    for r in &rules {
        g.rules.push(gm::Rule { name: r.name(&cst)?.0.to_string(), elided: r.is_elided(&cst), body: None });
    }
    let tok_by_name = |g: &Grammar, n: &str| g.tokens.iter().position(|t| t.name == n);
    let tok_by_sym = |g: &Grammar, s: &str| g.tokens.iter().position(|t| t.symbol.as_deref() == Some(&s[1..s.len() - 1]));
    let rule_by_name = |g: &Grammar, n: &str| g.rules.iter().position(|t| t.name == n);
    fn conv(cst: &Cst<'_>, g: &Grammar, r: ast::Regex) -> Option<R> {
        let kids = |cst: &Cst<'_>, g: &Grammar, r: ast::Regex| -> Option<Vec<R>> { regex_children(cst, r).into_iter().map(|c| conv(cst, g, c)).collect() };
        Some(match r {
            ast::Regex::OrderedChoice(_) => R::Choice(kids(cst, g, r)?),
            ast::Regex::Alternation(_) => R::Alt(kids(cst, g, r)?),
            ast::Regex::Concat(_) => R::Concat(kids(cst, g, r)?),
            ast::Regex::Paren(_) => R::Paren(kids(cst, g, r)?.pop().map(Box::new)),
            ast::Regex::Optional(_) => R::Opt(Box::new(kids(cst, g, r)?.pop()?)),
            ast::Regex::Star(_) => R::Star(Box::new(kids(cst, g, r)?.pop()?)),
            ast::Regex::Plus(_) => R::Plus(Box::new(kids(cst, g, r)?.pop()?)),
            ast::Regex::Name(n) => {
                let name = n.value(cst)?.0;
                if name.starts_with(|c: char| c.is_lowercase()) {
                    R::Ref(g.rules.iter().position(|t| t.name == name)?)
                } else {
                    R::Tok(g.tokens.iter().position(|t| t.name == name)?, false)
                }
            }
            ast::Regex::Symbol(s) => {
                let sym = s.value(cst)?.0;
                R::Tok(g.tokens.iter().position(|t| t.symbol.as_deref() == Some(&sym[1..sym.len() - 1]))?, true)
            }
            ast::Regex::Predicate(p) => {
                let v = p.value(cst)?.0;
                if &v[1..] == "t" { R::Pred(None) } else { R::Pred(Some(v[1..].parse().ok()?)) }
            }
            ast::Regex::Action(a) => R::Action(a.value(cst)?.0[1..].parse().ok()?),
            ast::Regex::Assertion(a) => R::Assert(a.value(cst)?.0[1..].parse().ok()?),
            ast::Regex::NodeRename(n) => R::Rename(n.value(cst)?.0[1..].to_string()),
            ast::Regex::NodeElision(_) => R::Elide,
            ast::Regex::NodeMarker(m) => R::Marker(m.number(cst).parse().ok()?),
            ast::Regex::NodeCreation(c) => R::Create(match c.number(cst) { Some(n) => Some(n.parse().ok()?), None => None }, c.node_name(cst).map(|s| s.to_string())),
            ast::Regex::Commit(_) => R::Commit,
            ast::Regex::Return(_) => R::Return,
        })
    }
    for (i, r) in rules.iter().enumerate() {
        if let Some(b) = r.regex(&cst) {
            g.rules[i].body = Some(conv(&cst, &g, b)?);
        }
    }
    // declarations in file order
    let mut order = vec![];
    let mut tok_i = 0;
    let mut rule_i = 0;
    for c in cst.children(NodeRef::ROOT) {
        match cst.get(c) {
            Node::Rule(Rule::TokenList, _) => {
                let n = cst.children(c).filter(|x| ast::TokenDecl::cast(&cst, *x).is_some()).count();
                order.push(Decl::Tokens((tok_i..tok_i + n).collect()));
                tok_i += n;
            }
            Node::Rule(Rule::RuleDecl, _) => {
                order.push(Decl::Rule(rule_i));
                rule_i += 1;
            }
            Node::Rule(Rule::StartDecl, _) => {
                let d = ast::StartDecl::cast(&cst, c)?;
                g.start = rule_by_name(&g, d.rule_name(&cst)?.0)?;
                order.push(Decl::Start);
            }
            Node::Rule(Rule::SkipDecl, _) => {
                let d = ast::SkipDecl::cast(&cst, c)?;
                let mut v = vec![];
                let mut ok = true;
                d.token_names(&cst, |(n, _)| {
                    let r = if n.starts_with('\'') { tok_by_sym(&g, n).map(|t| (t, true)) } else { tok_by_name(&g, n).map(|t| (t, false)) };
                    match r {
                        Some(x) => v.push(x),
                        None => ok = false,
                    }
                });
                if !ok {
                    return None;
                }
                g.skip.extend(v.iter().map(|x| x.0));
                order.push(Decl::Skip(v));
            }
            Node::Rule(Rule::RightDecl, _) => {
                let d = ast::RightDecl::cast(&cst, c)?;
                let mut v = vec![];
                let mut ok = true;
                d.token_names(&cst, |(n, _)| {
                    let r = if n.starts_with('\'') { tok_by_sym(&g, n).map(|t| (t, true)) } else { tok_by_name(&g, n).map(|t| (t, false)) };
                    match r {
                        Some(x) => v.push(x),
                        None => ok = false,
                    }
                });
                if !ok {
                    return None;
                }
                g.right.extend(v.iter().map(|x| x.0));
                order.push(Decl::Right(v));
            }
            Node::Rule(Rule::PartDecl, _) => {
                let d = ast::PartDecl::cast(&cst, c)?;
                let mut v = vec![];
                let mut ok = true;
                d.rule_names(&cst, |(n, _)| match rule_by_name(&g, n) {
                    Some(x) => v.push(x),
                    None => ok = false,
                });
                if !ok {
                    return None;
                }
                g.parts.extend(v.iter().copied());
                order.push(Decl::Part(v));
            }
            _ => {}
        }
    }
    if g.start == usize::MAX {
        return None;
    }
    g.order = Some(order);
    Some(g)
}

/// What C12 needs to know about one text.
#[derive(Debug, Default, Clone)]
pub struct FrontInfo {
    pub n_syntax_diags: usize,
    pub n_sema_diags: usize,
    pub diags: Vec<LwDiag>,
    /// first problem found with a label range, if any
    pub bad_span: Option<String>,
    /// rendering problem, if any
    pub render_error: Option<String>,
    /// lossless-tree problem of the front end's own CST, if any
    pub cst_error: Option<String>,
    pub reached_sema: bool,
}

/// Lex, parse, analyse `text`; validate every label range; render every diagnostic; check that
/// the front end's own CST is lossless. Panics propagate to the caller (use `catch`).
pub fn frontend_check(text: &str) -> FrontInfo {
    use codespan_reporting::files::SimpleFile;
    use codespan_reporting::term::{self, termcolor::NoColor, Config, DisplayStyle};
    let mut info = FrontInfo::default();
    let mut diags = vec![];
    let cst = Parser::new(text, &mut diags).parse(&mut diags);
    info.n_syntax_diags = diags.len();
    let _sema = SemanticPass::run(&cst, &mut diags);
    info.reached_sema = true;
    info.n_sema_diags = diags.len() - info.n_syntax_diags;
    info.diags = diags.iter().map(conv_diag).collect();
    for d in &info.diags {
        for l in &d.labels {
            if l.start > l.end || l.end > text.len() {
                info.bad_span.get_or_insert(format!("label {}..{} of `{}` outside the text (len {})", l.start, l.end, d.message, text.len()));
            } else if !text.is_char_boundary(l.start) || !text.is_char_boundary(l.end) {
                info.bad_span.get_or_insert(format!("label {}..{} of `{}` not on character boundaries", l.start, l.end, d.message));
            }
        }
    }
    if info.bad_span.is_none() {
        let file = SimpleFile::new("g.llw", text);
        for style in [DisplayStyle::Rich, DisplayStyle::Short] {
            let mut config = Config::default();
            config.display_style = style;
            for d in &diags {
                let mut w = NoColor::new(Vec::new());
                if let Err(e) = term::emit_to_write_style(&mut w, &config, &file, d) {
                    info.render_error.get_or_insert(format!("rendering `{}` failed: {e}", d.message));
                }
            }
        }
    }
    // lossless CST: token leaves tile the source
    let mut pos = 0usize;
    let mut stack = vec![NodeRef::ROOT];
    let mut leaves = vec![];
    fn walk(cst: &Cst<'_>, n: NodeRef, leaves: &mut Vec<(usize, usize)>) {
        match cst.get(n) {
            lelwel::frontend::parser::Node::Rule(..) => {
                for c in cst.children(n) {
                    walk(cst, c, leaves);
                }
            }
            lelwel::frontend::parser::Node::Token(..) => {
                let s = cst.span(n);
                leaves.push((s.start, s.end));
            }
        }
    }
    stack.clear();
    walk(&cst, NodeRef::ROOT, &mut leaves);
    for (s, e) in &leaves {
        if *s != pos {
            info.cst_error.get_or_insert(format!("token leaves do not tile the source: leaf {s}..{e} follows offset {pos}"));
            break;
        }
        pos = *e;
    }
    if info.cst_error.is_none() && pos != text.len() {
        info.cst_error = Some(format!("token leaves end at {pos}, text has {} bytes", text.len()));
    }
    info
}

/// `format` of the text's CST (panics propagate)
pub fn format_text(text: &str) -> String {
    let mut diags = vec![];
    let cst = Parser::new(text, &mut diags).parse(&mut diags);
    lelwel::backend::format::format(&cst)
}

/// number of diagnostics from lexing + parsing only
pub fn syntax_diag_count(text: &str) -> usize {
    let mut diags = vec![];
    let _ = Parser::new(text, &mut diags).parse(&mut diags);
    diags.len()
}
