pub fn hello() {}
