//! Reference interpreter with value semantics: a predictive parser over the grammar model that
//! uses the *reference* predict sets, builds the tree the README describes (node per rule
//! application, rename, elision, marker/creation), performs ordered choice by trying
//! alternatives on copies of the state, and judges operator rules by textbook precedence
//! climbing. No error recovery: outside an undoable attempt a mismatch rejects the input.

use crate::alab::pratt_branches;
use crate::gm::*;
use crate::labrun::GInfo;
use crate::refan::{self, TS};
use std::collections::BTreeMap;

#[derive(Clone, Debug, PartialEq, Eq)]
pub enum ITree {
    Node(String, Vec<ITree>),
    /// token kind index, index among the non-trivia input tokens
    Tok(usize, usize),
}

impl ITree {
    pub fn dump(&self, g: &Grammar) -> String {
        match self {
            ITree::Node(k, ch) => format!("{k}[{}]", ch.iter().map(|c| c.dump(g)).collect::<Vec<_>>().join(" ")),
            ITree::Tok(t, i) => format!("{}@{}", g.tokens[*t].name, i),
        }
    }
}

#[derive(Clone, Debug, PartialEq)]
pub enum Outcome {
    Accept { tree: ITree, actions: Vec<(String, u32)>, assert_diags: usize, abandoned_with_nodes: bool },
    Reject { pos: usize },
    /// outside what the interpreter models (step budget, `?n` predicate, ...)
    Unknown(&'static str),
}

#[derive(Clone)]
struct Frame {
    rule: usize,
    kind: String,
    elide: bool,
    children: Vec<ITree>,
    markers: BTreeMap<u32, usize>,
}

#[derive(Clone)]
struct St {
    pos: usize,
    try_mode: bool,
    actions: Vec<(String, u32)>,
    assert_diags: usize,
    error_state: bool,
}

enum Stop {
    Fail,
    Reject(usize),
    Unknown(&'static str),
}

pub struct Interp<'a> {
    pub g: &'a Grammar,
    pub info: &'a GInfo,
    pub toks: &'a [usize],
    pub eof: usize,
    /// scripted assertion outcome: (rule name, n, position in non-trivia tokens, lookahead name) -> fails?
    pub assert_fails: &'a dyn Fn(&str, u32, usize) -> bool,
    steps: u64,
    abandoned_with_nodes: bool,
}

fn count_nodes(v: &[ITree]) -> usize {
    v.iter().map(|t| match t { ITree::Node(_, c) => 1 + count_nodes(c), _ => 0 }).sum()
}

impl<'a> Interp<'a> {
    pub fn new(g: &'a Grammar, info: &'a GInfo, toks: &'a [usize], entry: usize, assert_fails: &'a dyn Fn(&str, u32, usize) -> bool) -> Interp<'a> {
        let eof = if entry == 0 { refan::eof_index(g) } else { refan::part_eof_index(g, entry - 1) };
        Interp { g, info, toks, eof, assert_fails, steps: 0, abandoned_with_nodes: false }
    }
    fn la(&self, st: &St) -> usize {
        self.toks.get(st.pos).copied().unwrap_or(self.eof)
    }
    fn predict(&self, id: usize) -> TS {
        self.info.sets.predict(id)
    }
    fn mismatch(&self, st: &St) -> Stop {
        if st.try_mode { Stop::Fail } else { Stop::Reject(st.pos) }
    }
    /// does the leading predicate (if any) of branch / body `id` hold? Err for `?n`.
    fn guard(&self, id: usize) -> Result<bool, Stop> {
        let flat = &self.info.flat;
        match &flat.nodes[id].kind {
            K::Concat => match flat.nodes[id].children.first().map(|c| &flat.nodes[*c].kind) {
                Some(K::Pred(None)) => Ok(true),
                Some(K::Pred(Some(_))) => Err(Stop::Unknown("user predicate")),
                _ => Ok(true),
            },
            K::Paren => match flat.nodes[id].children.first() {
                Some(c) => self.guard(*c),
                None => Ok(true),
            },
            _ => Ok(true),
        }
    }
    fn tick(&mut self) -> Result<(), Stop> {
        self.steps += 1;
        if self.steps > 2_000_000 { Err(Stop::Unknown("step budget")) } else { Ok(()) }
    }

    fn regex(&mut self, id: usize, fr: &mut Frame, st: &mut St) -> Result<(), Stop> {
        self.tick()?;
        let node = self.info.flat.nodes[id].clone();
        match &node.kind {
            K::Tok(t) => {
                if self.la(st) == *t {
                    fr.children.push(ITree::Tok(*t, st.pos));
                    st.pos += 1;
                    st.error_state = false;
                    Ok(())
                } else {
                    Err(self.mismatch(st))
                }
            }
            K::Ref(r) => {
                let kids = self.apply_rule(*r, st)?;
                fr.children.extend(kids);
                Ok(())
            }
            K::Concat => {
                for c in &node.children {
                    self.regex(*c, fr, st)?;
                }
                Ok(())
            }
            K::Paren => {
                if let Some(c) = node.children.first() {
                    self.regex(*c, fr, st)?;
                }
                Ok(())
            }
            K::Alt => {
                let la = self.la(st);
                for c in &node.children {
                    if self.predict(*c).contains(la) && self.guard(*c)? {
                        return self.regex(*c, fr, st);
                    }
                }
                Err(self.mismatch(st))
            }
            K::Opt => {
                let body = node.children[0];
                if self.info.sets.first[body].contains(self.la(st)) && self.guard(body)? {
                    self.regex(body, fr, st)?;
                } else if !self.info.sets.follow[id].contains(self.la(st)) {
                    // neither the body nor anything that may follow: an error here and now
                    return Err(self.mismatch(st));
                }
                Ok(())
            }
            K::Star | K::Plus => {
                let body = node.children[0];
                if node.kind == K::Plus {
                    self.regex(body, fr, st)?;
                }
                loop {
                    self.tick()?;
                    if self.info.sets.first[body].contains(self.la(st)) && self.guard(body)? {
                        let before = st.pos;
                        self.regex(body, fr, st)?;
                        if st.pos == before {
                            return Err(Stop::Unknown("loop body consumed nothing"));
                        }
                    } else {
                        break;
                    }
                }
                if !self.info.sets.follow[id].contains(self.la(st)) {
                    return Err(self.mismatch(st));
                }
                Ok(())
            }
            K::Choice => {
                let n = node.children.len();
                let enclosing = st.try_mode;
                let la = self.la(st);
                for (i, c) in node.children.iter().enumerate() {
                    if i + 1 < n {
                        if !self.predict(*c).contains(la) {
                            continue;
                        }
                        let (fr0, st0) = (fr.clone(), st.clone());
                        st.try_mode = true;
                        match self.regex(*c, fr, st) {
                            Ok(()) => {
                                st.try_mode = enclosing;
                                return Ok(());
                            }
                            Err(Stop::Fail) => {
                                if count_nodes(&fr.children) > count_nodes(&fr0.children) {
                                    self.abandoned_with_nodes = true;
                                }
                                let keep_actions = st.actions.len();
                                let _ = keep_actions;
                                *fr = fr0;
                                *st = st0;
                            }
                            Err(e) => return Err(e),
                        }
                    } else {
                        st.try_mode = enclosing;
                        if self.predict(*c).contains(la) {
                            return self.regex(*c, fr, st);
                        }
                        return Err(self.mismatch(st));
                    }
                }
                Err(self.mismatch(st))
            }
            K::Pred(None) => Ok(()),
            K::Pred(Some(_)) => Err(Stop::Unknown("user predicate")),
            K::Action(n) => {
                st.actions.push((self.g.rules[fr.rule].name.clone(), *n));
                Ok(())
            }
            K::Assert(n) => {
                if (self.assert_fails)(&self.g.rules[fr.rule].name, *n, st.pos) {
                    if st.try_mode {
                        return Err(Stop::Fail);
                    }
                    st.assert_diags += 1;
                    st.error_state = true;
                }
                Ok(())
            }
            K::Rename(name) => {
                fr.kind = name.clone();
                Ok(())
            }
            K::Elide => {
                fr.elide = true;
                Ok(())
            }
            K::Marker(n) => {
                fr.markers.insert(*n, fr.children.len());
                Ok(())
            }
            K::Create(idx, name) => {
                let from = match idx {
                    Some(i) => *fr.markers.get(i).ok_or(Stop::Unknown("creation without visited marker"))?,
                    None => 0,
                };
                let kind = name.clone().unwrap_or_else(|| self.g.rules[fr.rule].name.clone());
                if from > fr.children.len() {
                    return Err(Stop::Unknown("marker beyond children"));
                }
                let wrapped: Vec<ITree> = fr.children.drain(from..).collect();
                fr.children.push(ITree::Node(kind, wrapped));
                Ok(())
            }
            K::Commit => {
                st.try_mode = false;
                Ok(())
            }
            K::Return => {
                if st.error_state {
                    return Err(Stop::Unknown("return with active error"));
                }
                Ok(())
            }
        }
    }

    /// Apply rule `r` at the current position; returns the children it contributes to its caller.
    fn apply_rule(&mut self, r: usize, st: &mut St) -> Result<Vec<ITree>, Stop> {
        self.tick()?;
        let rule = &self.g.rules[r];
        let Some(body) = self.info.flat.rule_body[r] else {
            return Ok(if rule.elided { vec![] } else { vec![ITree::Node(rule.name.clone(), vec![])] });
        };
        let pb = pratt_branches(&self.info.flat, r);
        if pb.iter().any(|b| b.left.is_some()) {
            return self.pratt(r, 0, st);
        }
        let mut fr = Frame { rule: r, kind: rule.name.clone(), elide: rule.elided, children: vec![], markers: BTreeMap::new() };
        self.regex(body, &mut fr, st)?;
        Ok(if fr.elide { fr.children } else { vec![ITree::Node(fr.kind, fr.children)] })
    }

    /// textbook precedence climbing for a directly left-recursive rule
    fn pratt(&mut self, r: usize, min_bp: usize, st: &mut St) -> Result<Vec<ITree>, Stop> {
        self.tick()?;
        let flat = &self.info.flat;
        let body = flat.rule_body[r].unwrap();
        let pb = pratt_branches(flat, r);
        let k = pb.len();
        // binding powers: earlier recursive branch binds tighter; right-assoc swaps the pair
        let bp = |bi: usize| -> (usize, usize) {
            let level = k - bi;
            let b = &pb[bi];
            let mut pair = (2 * level, 2 * level + 1);
            if let (Some(l), Some(_)) = (b.left, b.right) {
                let ch = &flat.nodes[b.branch].children;
                // the operator is the first element behind the left operand (decorations in front
                // of the operand, `?1 @x e OP e`, do not count)
                let op = ch.iter().copied().enumerate().find(|(j, c)| *j > l && !matches!(flat.nodes[*c].kind, K::Pred(_))).map(|(_, c)| c);
                if let Some(op) = op {
                    let toks: Vec<usize> = self.info.sets.first[op].iter().collect();
                    if !toks.is_empty() && toks.iter().all(|t| self.g.right.contains(t)) {
                        pair = (pair.1, pair.0);
                    }
                }
            }
            pair
        };
        let rule_name = self.g.rules[r].name.clone();
        let la = self.la(st);
        let mut lhs: Option<Vec<ITree>> = None;
        for c in flat.nodes[body].children.clone() {
            let pbi = pb.iter().position(|b| b.branch == c);
            if pbi.is_some_and(|i| pb[i].left.is_some()) {
                continue;
            }
            if !(self.predict(c).contains(la) && self.guard(c)?) {
                continue;
            }
            let mut fr = Frame { rule: r, kind: rule_name.clone(), elide: false, children: vec![], markers: BTreeMap::new() };
            match pbi {
                Some(i) => {
                    // prefix operator branch: elements, then the operand at the branch's power
                    let right = pb[i].right.unwrap();
                    let ch = flat.nodes[c].children.clone();
                    for (j, e) in ch.iter().enumerate() {
                        if j == right {
                            let kids = self.pratt(r, bp(i).0, st)?;
                            fr.children.extend(kids);
                        } else {
                            self.regex(*e, &mut fr, st)?;
                        }
                    }
                }
                None => self.regex(c, &mut fr, st)?,
            }
            lhs = Some(if fr.elide { fr.children } else { vec![ITree::Node(fr.kind, fr.children)] });
            break;
        }
        let Some(mut lhs) = lhs else { return Err(self.mismatch(st)) };
        'outer: loop {
            self.tick()?;
            let la = self.la(st);
            for (i, b) in pb.iter().enumerate() {
                let Some(left) = b.left else { continue };
                let ch = flat.nodes[b.branch].children.clone();
                let Some(op) = ch.iter().copied().enumerate().find(|(j, c)| *j > left && !matches!(flat.nodes[*c].kind, K::Pred(_))).map(|(_, c)| c) else { continue };
                if !(self.predict(op).contains(la) && self.guard(b.branch)?) {
                    continue;
                }
                let (lbp, rbp) = bp(i);
                if lbp < min_bp {
                    break 'outer;
                }
                let mut fr = Frame { rule: r, kind: rule_name.clone(), elide: false, children: std::mem::take(&mut lhs), markers: BTreeMap::new() };
                for (j, e) in ch.iter().enumerate() {
                    if j == left || matches!(flat.nodes[*e].kind, K::Pred(_)) {
                        continue;
                    }
                    if Some(j) == b.right {
                        let kids = self.pratt(r, rbp, st)?;
                        fr.children.extend(kids);
                    } else {
                        self.regex(*e, &mut fr, st)?;
                    }
                }
                lhs = vec![ITree::Node(fr.kind, fr.children)];
                continue 'outer;
            }
            break;
        }
        Ok(lhs)
    }

    pub fn run(mut self, entry_rule: usize, is_part: bool) -> Outcome {
        let mut st = St { pos: 0, try_mode: false, actions: vec![], assert_diags: 0, error_state: false };
        let res = if is_part {
            self.apply_rule(entry_rule, &mut st).map(|kids| ITree::Node("part".to_string(), kids))
        } else {
            // the start rule is the root: its frame becomes the root node
            let rule = &self.g.rules[entry_rule];
            match self.info.flat.rule_body[entry_rule] {
                None => Ok(ITree::Node(rule.name.clone(), vec![])),
                Some(body) => {
                    let pb = pratt_branches(&self.info.flat, entry_rule);
                    if pb.iter().any(|b| b.left.is_some()) {
                        self.pratt(entry_rule, 0, &mut st).map(|kids| ITree::Node(rule.name.clone(), kids))
                    } else {
                        let mut fr = Frame { rule: entry_rule, kind: rule.name.clone(), elide: false, children: vec![], markers: BTreeMap::new() };
                        self.regex(body, &mut fr, &mut st).map(|_| ITree::Node(rule.name.clone(), fr.children))
                    }
                }
            }
        };
        match res {
            Ok(tree) => {
                if st.pos != self.toks.len() {
                    return Outcome::Reject { pos: st.pos };
                }
                Outcome::Accept { tree, actions: st.actions, assert_diags: st.assert_diags, abandoned_with_nodes: self.abandoned_with_nodes }
            }
            Err(Stop::Reject(p)) => Outcome::Reject { pos: p },
            Err(Stop::Fail) => Outcome::Unknown("attempt failure escaped its choice"),
            Err(Stop::Unknown(w)) => Outcome::Unknown(w),
        }
    }
}

/// Reply tree with trivia removed, in the interpreter's shape. Token leaves are renumbered by
/// their rank among non-trivia tokens.
pub fn strip_reply_tree(g: &Grammar, t: &crate::lab::TNode) -> ITree {
    fn rec(g: &Grammar, t: &crate::lab::TNode, next: &mut usize) -> Option<ITree> {
        match t {
            crate::lab::TNode::Tok { kind, .. } => {
                let k = g.tokens.iter().position(|x| &x.name == kind)?;
                if g.skip.contains(&k) {
                    return None;
                }
                let i = *next;
                *next += 1;
                Some(ITree::Tok(k, i))
            }
            crate::lab::TNode::Rule { kind, ch, .. } => Some(ITree::Node(kind.clone(), ch.iter().filter_map(|c| rec(g, c, next)).collect())),
        }
    }
    let mut n = 0;
    rec(g, t, &mut n).unwrap_or(ITree::Node("?".into(), vec![]))
}
