//! Bounded-exhaustive enumeration of small grammars (C09, C10, C14).

use crate::gm::*;
use crate::refan;

#[derive(Clone, Copy, Debug)]
pub struct Family {
    pub rules: usize,
    pub tokens: usize,
    pub size: usize,
    /// second family: also ordered choice, empty parens
    pub extended: bool,
}

/// all regexes of exactly `size` nodes (before normalisation), indexed by size
fn by_size(leaves: &[Regex], max: usize, extended: bool) -> Vec<Vec<Regex>> {
    let mut t: Vec<Vec<Regex>> = vec![vec![]; max + 1];
    if max >= 1 {
        t[1] = leaves.to_vec();
        if extended {
            t[1].push(Regex::Paren(None));
            t[1].push(Regex::Pred(Some(1)));
        }
    }
    for s in 2..=max {
        let mut out = vec![];
        for c in &t[s - 1] {
            out.push(Regex::Opt(Box::new(c.clone())));
            out.push(Regex::Star(Box::new(c.clone())));
            out.push(Regex::Plus(Box::new(c.clone())));
        }
        // binary
        for a in 1..s - 1 {
            let b = s - 1 - a;
            if b < 1 {
                continue;
            }
            for x in &t[a] {
                for y in &t[b] {
                    out.push(Regex::Concat(vec![x.clone(), y.clone()]));
                    out.push(Regex::Alt(vec![x.clone(), y.clone()]));
                    if extended {
                        out.push(Regex::Choice(vec![x.clone(), y.clone()]));
                    }
                }
            }
        }
        // ternary
        for a in 1..s - 1 {
            for b in 1..s - 1 - a {
                let c = s - 1 - a - b;
                if c < 1 {
                    continue;
                }
                for x in &t[a] {
                    for y in &t[b] {
                        for z in &t[c] {
                            out.push(Regex::Concat(vec![x.clone(), y.clone(), z.clone()]));
                            out.push(Regex::Alt(vec![x.clone(), y.clone(), z.clone()]));
                        }
                    }
                }
            }
        }
        t[s] = out;
    }
    t
}

fn size_tuples(rules: usize, total: usize) -> Vec<Vec<usize>> {
    fn rec(k: usize, left: usize, cur: &mut Vec<usize>, out: &mut Vec<Vec<usize>>) {
        if k == 0 {
            out.push(cur.clone());
            return;
        }
        for s in 1..=left.saturating_sub(k - 1) {
            cur.push(s);
            rec(k - 1, left - s, cur, out);
            cur.pop();
        }
    }
    let mut out = vec![];
    rec(rules, total, &mut vec![], &mut out);
    out
}

/// Calls `f` for every reduced grammar of the family (rules unreferenced from the start rule
/// become parts). Work is split by the body of rule 0: `shard`/`n_shards`.
pub fn for_each(fam: Family, shard: usize, n_shards: usize, f: &mut dyn FnMut(&Grammar)) -> u64 {
    let mut leaves: Vec<Regex> = (0..fam.tokens).map(|t| Regex::Tok(t, false)).collect();
    for r in 1..fam.rules {
        leaves.push(Regex::Ref(r));
    }
    let t = by_size(&leaves, fam.size, fam.extended);
    let tokens: Vec<TokenDecl> = (0..fam.tokens).map(|i| TokenDecl { name: ((b'A' + i as u8) as char).to_string(), symbol: None }).collect();
    let mut total = 0u64;
    let mut counter = 0usize;
    for n_rules in 1..=fam.rules {
        for sizes in size_tuples(n_rules, fam.size) {
            // iterate the cartesian product of bodies
            let lists: Vec<&Vec<Regex>> = sizes.iter().map(|s| &t[*s]).collect();
            if lists.iter().any(|l| l.is_empty()) {
                continue;
            }
            let mut idx = vec![0usize; n_rules];
            'outer: loop {
                counter += 1;
                if counter % n_shards == shard {
                    // references to rules >= n_rules are invalid in this sub-family
                    let bodies: Vec<Regex> = idx.iter().enumerate().map(|(r, i)| lists[r][*i].clone()).collect();
                    let ok_refs = bodies.iter().all(|b| !b.any(&|x| matches!(x, Regex::Ref(k) if *k >= n_rules)));
                    if ok_refs {
                        let mut g = Grammar {
                            tokens: tokens.clone(),
                            skip: vec![],
                            right: vec![],
                            start: 0,
                            parts: vec![],
                            rules: bodies.into_iter().enumerate().map(|(i, b)| Rule { name: format!("r{i}"), elided: false, body: Some(b.normalize()) }).collect(),
                            order: None,
                        };
                        let reach = refan::reachable_rules(&g, false);
                        for (i, r) in reach.iter().enumerate() {
                            if !*r {
                                g.parts.push(i);
                            }
                        }
                        if refan::is_reduced(&g) {
                            total += 1;
                            f(&g);
                        }
                    }
                }
                // increment
                let mut k = n_rules;
                loop {
                    if k == 0 {
                        break 'outer;
                    }
                    k -= 1;
                    idx[k] += 1;
                    if idx[k] < lists[k].len() {
                        break;
                    }
                    idx[k] = 0;
                }
            }
        }
    }
    total
}
