//! Evidence files, known findings, replay files, check outcome plumbing.

use serde_json::{Map, Value, json};
use std::collections::{BTreeMap, BTreeSet};
use std::path::PathBuf;
use std::time::Instant;

pub fn root() -> PathBuf {
    PathBuf::from(std::env::var("VERIF_ROOT").unwrap_or_else(|_| "/verif".to_string()))
}

/// the repository under test (`/repo`; the sensitivity lab of tools/seedlab.sh points it at a
/// scratch worktree through VERIF_REPO so that seeded changes never touch /repo)
pub fn repo() -> PathBuf {
    PathBuf::from(std::env::var("VERIF_REPO").unwrap_or_else(|_| "/repo".to_string()))
}

/// set by `vcheck <ID> --replay <file>`
pub static REPLAY_MODE: std::sync::atomic::AtomicBool = std::sync::atomic::AtomicBool::new(false);

pub fn hash64(s: &str) -> u64 {
    crate::dice::tag(s)
}

#[derive(Clone, Copy, PartialEq, Eq, Debug)]
pub enum Tier {
    Quick,
    Thorough,
}

impl Tier {
    pub fn name(&self) -> &'static str {
        match self {
            Tier::Quick => "quick",
            Tier::Thorough => "thorough",
        }
    }
    pub fn pick<T>(&self, q: T, t: T) -> T {
        match self {
            Tier::Quick => q,
            Tier::Thorough => t,
        }
    }
}

pub struct Evidence {
    pub id: String,
    pub tier: Tier,
    pub seed: u64,
    pub evaluations: u64,
    pub nontrivial: BTreeSet<u64>,
    pub rule: String,
    pub samples: Vec<Value>,
    pub labels: BTreeMap<String, u64>,
    pub excluded: BTreeMap<String, u64>,
    pub extra: Map<String, Value>,
    pub assumptions: Vec<String>,
    pub violations: u64,
    pub exhaustive: Option<bool>,
    start: Instant,
}

impl Evidence {
    pub fn new(id: &str, tier: Tier, seed: u64, rule: &str) -> Evidence {
        Evidence {
            id: id.to_string(),
            tier,
            seed,
            evaluations: 0,
            nontrivial: BTreeSet::new(),
            rule: rule.to_string(),
            samples: vec![],
            labels: BTreeMap::new(),
            excluded: BTreeMap::new(),
            extra: Map::new(),
            assumptions: vec![],
            violations: 0,
            exhaustive: None,
            start: Instant::now(),
        }
    }
    pub fn eval(&mut self) {
        self.evaluations += 1;
    }
    pub fn nontrivial(&mut self, key: &str) {
        self.nontrivial.insert(hash64(key));
    }
    pub fn sample(&mut self, v: Value) {
        if self.samples.len() < 6 {
            self.samples.push(v);
        }
    }
    pub fn label(&mut self, l: &str) {
        *self.labels.entry(l.to_string()).or_default() += 1;
    }
    pub fn label_n(&mut self, l: &str, n: u64) {
        *self.labels.entry(l.to_string()).or_default() += n;
    }
    pub fn exclude(&mut self, reason: &str) {
        *self.excluded.entry(reason.to_string()).or_default() += 1;
    }
    pub fn set(&mut self, k: &str, v: Value) {
        self.extra.insert(k.to_string(), v);
    }
    pub fn merge(&mut self, o: Evidence) {
        self.evaluations += o.evaluations;
        self.nontrivial.extend(o.nontrivial);
        for s in o.samples {
            self.sample(s);
        }
        for (k, v) in o.labels {
            *self.labels.entry(k).or_default() += v;
        }
        for (k, v) in o.excluded {
            *self.excluded.entry(k).or_default() += v;
        }
        for (k, v) in o.extra {
            self.extra.insert(k, v);
        }
        self.violations += o.violations;
    }
    pub fn write(&self) {
        let mut cov = Map::new();
        cov.insert("evaluations".into(), json!(self.evaluations));
        cov.insert("distinct_nontrivial".into(), json!(self.nontrivial.len()));
        cov.insert("rule".into(), json!(self.rule));
        cov.insert("samples".into(), Value::Array(self.samples.clone()));
        cov.insert("labels".into(), json!(self.labels));
        cov.insert("excluded".into(), json!(self.excluded));
        if let Some(e) = self.exhaustive {
            cov.insert("exhaustive".into(), json!(e));
        }
        for (k, v) in &self.extra {
            cov.insert(k.clone(), v.clone());
        }
        let doc = json!({
            "property_id": self.id,
            "tier": self.tier.name(),
            "seed": self.seed,
            "level": "exploration",
            "coverage": Value::Object(cov),
            "assumptions": self.assumptions,
            "wall_s": self.start.elapsed().as_secs_f64(),
            "violations": self.violations,
        });
        let dir = root().join("evidence");
        std::fs::create_dir_all(&dir).unwrap();
        // re-evaluating one saved reproduction must not replace the record of the last full run
        let name = if REPLAY_MODE.load(std::sync::atomic::Ordering::Relaxed) { format!("{}.replay.json", self.id) } else { format!("{}.json", self.id) };
        std::fs::write(dir.join(name), serde_json::to_string_pretty(&doc).unwrap()).unwrap();
    }
}

#[derive(Clone, Debug)]
pub struct Violation {
    /// signature used to match known findings
    pub sig: String,
    pub what: String,
    pub replay: Value,
}

pub struct Findings {
    pub findings: Vec<(String, String, String)>, // (property, signature, what)
}

impl Findings {
    pub fn load() -> Findings {
        let p = root().join("known_findings.json");
        let mut findings = vec![];
        if let Ok(s) = std::fs::read_to_string(&p) {
            if let Ok(v) = serde_json::from_str::<Value>(&s) {
                for f in v["findings"].as_array().cloned().unwrap_or_default() {
                    findings.push((
                        f["property"].as_str().unwrap_or("").to_string(),
                        f["signature"].as_str().unwrap_or("").to_string(),
                        f["what"].as_str().unwrap_or("").to_string(),
                    ));
                }
            }
        }
        Findings { findings }
    }
    pub fn known(&self, prop: &str, sig: &str) -> Option<&str> {
        self.findings.iter().find(|(p, s, _)| p == prop && s == sig).map(|(_, _, w)| w.as_str())
    }
    /// all signatures listed for a property
    pub fn sigs(&self, prop: &str) -> Vec<String> {
        self.findings.iter().filter(|(p, _, _)| p == prop).map(|(_, s, _)| s.clone()).collect()
    }
}

/// Collects violations during a check; prints KNOWN-FINDING / VIOLATION lines at the end.
pub struct Report {
    pub id: String,
    pub known: Findings,
    pub new: Vec<Violation>,
    pub known_hits: BTreeMap<String, (String, u64)>,
}

impl Report {
    pub fn new(id: &str) -> Report {
        Report { id: id.to_string(), known: Findings::load(), new: vec![], known_hits: BTreeMap::new() }
    }
    pub fn is_known(&self, sig: &str) -> bool {
        self.known.known(&self.id, sig).is_some()
    }
    pub fn violation(&mut self, v: Violation) {
        if let Some(w) = self.known.known(&self.id, &v.sig) {
            let e = self.known_hits.entry(v.sig.clone()).or_insert((w.to_string(), 0));
            e.1 += 1;
        } else if !self.new.iter().any(|x| x.sig == v.sig) || self.new.len() < 3 {
            self.new.push(v);
        }
    }
    pub fn failed(&self) -> bool {
        !self.new.is_empty()
    }
    /// Print result lines; returns process exit code.
    pub fn finish(&self, ev: &mut Evidence) -> i32 {
        for (sig, (what, n)) in &self.known_hits {
            println!("KNOWN-FINDING: property={} {} [{}; re-observed {} times]", self.id, what, sig, n);
        }
        ev.set("known_findings_reobserved", json!(self.known_hits.iter().map(|(k, v)| (k.clone(), v.1)).collect::<BTreeMap<_, _>>()));
        ev.violations = self.new.len() as u64;
        let mut code = 0;
        let mut seen = BTreeSet::new();
        for v in &self.new {
            let dir = root().join("replays").join("new");
            std::fs::create_dir_all(&dir).unwrap();
            let body = serde_json::to_string_pretty(&json!({"property": self.id, "signature": v.sig, "what": v.what, "replay": v.replay})).unwrap();
            let path = dir.join(format!("{}-{:016x}.json", self.id, hash64(&body)));
            std::fs::write(&path, body).unwrap();
            if seen.insert(v.sig.clone()) {
                println!("VIOLATION property={} replay={}", self.id, path.display());
                println!("  what: {}", v.what);
            }
            code = 1;
        }
        code
    }
}

pub fn seed_from_env() -> u64 {
    std::env::var("VERIF_SEED").ok().and_then(|s| s.parse::<i64>().ok()).map(|x| x as u64).unwrap_or(0)
}
