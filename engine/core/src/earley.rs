//! Earley recogniser over the reference BNF (handles left recursion, ambiguity, ε). Uses no
//! first/follow information. Unproductive symbols are pruned so that a non-empty chart set
//! means the prefix read so far is viable.

use crate::refan::{Bnf, RefSets, Sym};
use std::collections::HashSet;

#[derive(Clone, Copy, PartialEq, Eq, Hash, Debug)]
pub struct Item {
    pub prod: u32,
    pub dot: u16,
    pub origin: u32,
}

pub type Set = Vec<Item>;

pub struct Earley {
    prods: Vec<(usize, Vec<Sym>)>,
    by_lhs: Vec<Vec<usize>>,
    nullable: Vec<bool>,
    start_prod: usize,
}

impl Earley {
    /// recogniser for the language of nonterminal `root` (e.g. the body of the entry rule)
    pub fn new(bnf: &Bnf, sets: &RefSets, root: usize) -> Earley {
        let n = bnf.n_nt + 1;
        let mut prods: Vec<(usize, Vec<Sym>)> = bnf
            .prods
            .iter()
            .filter(|(lhs, rhs)| sets.productive[*lhs] && rhs.iter().all(|s| match s { Sym::N(x) => sets.productive[*x], Sym::T(_) => true }))
            .cloned()
            .collect();
        let start_nt = bnf.n_nt;
        let start_prod = prods.len();
        prods.push((start_nt, vec![Sym::N(root)]));
        let mut by_lhs = vec![vec![]; n];
        for (i, (l, _)) in prods.iter().enumerate() {
            by_lhs[*l].push(i);
        }
        let mut nullable = sets.nullable.clone();
        nullable.push(sets.nullable[root]);
        // a nullable symbol must still be productive to count
        for i in 0..bnf.n_nt {
            if !sets.productive[i] {
                nullable[i] = false;
            }
        }
        Earley { prods, by_lhs, nullable, start_prod }
    }

    fn closure(&self, chart: &[Set], kernel: Vec<Item>, pos: usize) -> Set {
        let mut set: Vec<Item> = vec![];
        let mut seen: HashSet<Item> = HashSet::new();
        for it in kernel {
            if seen.insert(it) {
                set.push(it);
            }
        }
        let mut i = 0;
        while i < set.len() {
            let it = set[i];
            i += 1;
            let (lhs, rhs) = &self.prods[it.prod as usize];
            if (it.dot as usize) < rhs.len() {
                if let Sym::N(b) = rhs[it.dot as usize] {
                    for p in &self.by_lhs[b] {
                        let ni = Item { prod: *p as u32, dot: 0, origin: pos as u32 };
                        if seen.insert(ni) {
                            set.push(ni);
                        }
                    }
                    if self.nullable[b] {
                        let ni = Item { prod: it.prod, dot: it.dot + 1, origin: it.origin };
                        if seen.insert(ni) {
                            set.push(ni);
                        }
                    }
                }
            } else {
                // complete
                let origin = it.origin as usize;
                let from: &[Item] = if origin == pos { &[] } else { &chart[origin] };
                // items of the origin set waiting for lhs (for origin == pos use the growing set)
                let mut adv = vec![];
                if origin == pos {
                    for w in set.iter() {
                        let (_, r2) = &self.prods[w.prod as usize];
                        if (w.dot as usize) < r2.len() && r2[w.dot as usize] == Sym::N(*lhs) {
                            adv.push(Item { prod: w.prod, dot: w.dot + 1, origin: w.origin });
                        }
                    }
                } else {
                    for w in from {
                        let (_, r2) = &self.prods[w.prod as usize];
                        if (w.dot as usize) < r2.len() && r2[w.dot as usize] == Sym::N(*lhs) {
                            adv.push(Item { prod: w.prod, dot: w.dot + 1, origin: w.origin });
                        }
                    }
                }
                for ni in adv {
                    if seen.insert(ni) {
                        set.push(ni);
                    }
                }
            }
        }
        set
    }

    pub fn initial(&self) -> Set {
        self.closure(&[], vec![Item { prod: self.start_prod as u32, dot: 0, origin: 0 }], 0)
    }

    /// chart = sets 0..=k (after k tokens); returns set k+1 after scanning `tok` (empty = dead)
    pub fn step(&self, chart: &[Set], tok: usize) -> Set {
        let k = chart.len() - 1;
        let mut kernel = vec![];
        for it in &chart[k] {
            let (_, rhs) = &self.prods[it.prod as usize];
            if (it.dot as usize) < rhs.len() && rhs[it.dot as usize] == Sym::T(tok) {
                kernel.push(Item { prod: it.prod, dot: it.dot + 1, origin: it.origin });
            }
        }
        if kernel.is_empty() {
            return vec![];
        }
        self.closure(chart, kernel, k + 1)
    }

    pub fn accepting(&self, set: &Set) -> bool {
        set.iter().any(|it| it.prod as usize == self.start_prod && it.dot == 1 && it.origin == 0)
    }

    /// (is sentence, length of the longest viable prefix)
    pub fn recognize(&self, tokens: &[usize]) -> (bool, usize) {
        let mut chart = vec![self.initial()];
        if chart[0].is_empty() {
            return (false, 0);
        }
        for (i, t) in tokens.iter().enumerate() {
            let next = self.step(&chart, *t);
            if next.is_empty() {
                return (false, i);
            }
            chart.push(next);
        }
        (self.accepting(chart.last().unwrap()), tokens.len())
    }

    /// tokens that can extend the viable prefix described by `chart`
    pub fn expected(&self, chart: &[Set]) -> Vec<usize> {
        let mut v = vec![];
        for it in chart.last().unwrap() {
            let (_, rhs) = &self.prods[it.prod as usize];
            if (it.dot as usize) < rhs.len() {
                if let Sym::T(t) = rhs[it.dot as usize] {
                    if !v.contains(&t) {
                        v.push(t);
                    }
                }
            }
        }
        v
    }
}
