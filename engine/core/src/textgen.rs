//! Text generators for the grammar front end and the formatter: random legal layouts of a grammar
//! model (whitespace, line / doc / block comments in every gap), an independent splitter of the
//! grammar language's lexical items, lexical-item enumeration, token-level mutation, byte soup.

use crate::dice::Dice;
use crate::gm::*;

#[derive(Clone, Copy, Debug, PartialEq, Eq, Hash)]
pub enum LexKind {
    Ws,
    LineComment,
    DocComment,
    BlockComment,
    Word,
    Str,
    Punct,
    Pred,
    Action,
    Assert,
    Rename,
    Marker,
    Create,
    Other,
}

#[derive(Clone, Debug, PartialEq, Eq)]
pub struct Lexeme {
    pub kind: LexKind,
    pub start: usize,
    pub end: usize,
}

fn is_id_start(c: u8) -> bool {
    c.is_ascii_alphabetic()
}
fn is_id_char(c: u8) -> bool {
    c.is_ascii_alphanumeric() || c == b'_'
}

/// Our own splitter for `.llw` texts, written from the language description in the README
/// (keywords, punctuators, identifiers, strings with backslash escapes, `?n` `?t` `#n` `!n`
/// `@name` `<n` `n>name`, `//`, `///`, `/* */`). Unknown bytes become `Other`.
pub fn split(text: &str) -> Vec<Lexeme> {
    let b = text.as_bytes();
    let mut out = vec![];
    let mut i = 0;
    while i < b.len() {
        let s = i;
        let c = b[i];
        let kind;
        if matches!(c, b' ' | b'\t' | b'\r' | b'\n' | 0x0c) {
            while i < b.len() && matches!(b[i], b' ' | b'\t' | b'\r' | b'\n' | 0x0c) {
                i += 1;
            }
            kind = LexKind::Ws;
        } else if c == b'/' && b.get(i + 1) == Some(&b'/') {
            let doc = b.get(i + 2) == Some(&b'/');
            while i < b.len() && b[i] != b'\n' {
                i += 1;
            }
            if i < b.len() {
                i += 1; // the newline belongs to the comment
                kind = if doc { LexKind::DocComment } else { LexKind::LineComment };
            } else {
                kind = LexKind::Other; // comment without newline at the end of the text
            }
        } else if c == b'/' && b.get(i + 1) == Some(&b'*') {
            match text[i + 2..].find("*/") {
                Some(p) => i = i + 2 + p + 2,
                None => i = b.len(),
            }
            kind = LexKind::BlockComment;
        } else if c == b'\'' {
            i += 1;
            let mut closed = false;
            while i < b.len() {
                match b[i] {
                    b'\'' => {
                        i += 1;
                        closed = true;
                        break;
                    }
                    b'\n' => break,
                    b'\\' => {
                        i += 1;
                        if i < b.len() {
                            // skip one whole character
                            let ch = text[i..].chars().next().unwrap();
                            i += ch.len_utf8();
                        }
                    }
                    _ => {
                        let ch = text[i..].chars().next().unwrap();
                        i += ch.len_utf8();
                    }
                }
            }
            kind = if closed { LexKind::Str } else { LexKind::Other };
        } else if is_id_start(c) {
            while i < b.len() && is_id_char(b[i]) {
                i += 1;
            }
            kind = LexKind::Word;
        } else if c.is_ascii_digit() {
            let mut j = i;
            while j < b.len() && b[j].is_ascii_digit() {
                j += 1;
            }
            if b.get(j) == Some(&b'>') {
                j += 1;
                if j < b.len() && is_id_start(b[j]) {
                    while j < b.len() && is_id_char(b[j]) {
                        j += 1;
                    }
                }
                i = j;
                kind = LexKind::Create;
            } else {
                i = j;
                kind = LexKind::Other;
            }
        } else if c == b'>' {
            i += 1;
            if i < b.len() && is_id_start(b[i]) {
                while i < b.len() && is_id_char(b[i]) {
                    i += 1;
                }
            }
            kind = LexKind::Create;
        } else if c == b'<' && b.get(i + 1).is_some_and(|x| x.is_ascii_digit()) {
            i += 1;
            while i < b.len() && b[i].is_ascii_digit() {
                i += 1;
            }
            kind = LexKind::Marker;
        } else if c == b'@' {
            i += 1;
            if i < b.len() && is_id_start(b[i]) {
                while i < b.len() && is_id_char(b[i]) {
                    i += 1;
                }
            }
            kind = LexKind::Rename;
        } else if (c == b'?' || c == b'#' || c == b'!') && b.get(i + 1).is_some_and(|x| x.is_ascii_digit()) {
            i += 1;
            while i < b.len() && b[i].is_ascii_digit() {
                i += 1;
            }
            kind = match c {
                b'?' => LexKind::Pred,
                b'#' => LexKind::Action,
                _ => LexKind::Assert,
            };
        } else if c == b'?' && b.get(i + 1) == Some(&b't') {
            i += 2;
            kind = LexKind::Pred;
        } else if b":;=()[]|*+^~&/".contains(&c) {
            i += 1;
            kind = LexKind::Punct;
        } else {
            let ch = text[i..].chars().next().unwrap();
            i += ch.len_utf8();
            kind = LexKind::Other;
        }
        out.push(Lexeme { kind, start: s, end: i });
    }
    out
}

/// (kind, text) of all lexemes except whitespace
pub fn content(text: &str) -> Vec<(LexKind, String)> {
    split(text).into_iter().filter(|l| l.kind != LexKind::Ws).map(|l| (l.kind, text[l.start..l.end].to_string())).collect()
}

pub fn strip_ws(text: &str) -> String {
    text.chars().filter(|c| !matches!(c, ' ' | '\t' | '\r' | '\n' | '\x0c')).collect()
}

const COMMENT_WORDS: &[&str] = &["c", "note: a | b", "é😀", "x*/y", "token ;", "'", "", "  two  spaces", "/* not nested", "first line\n   second line", "a\n\tb\n * c\n", "*", "**", "x **", "* banner ***", "/", "/ /", "*\n *"];

fn comment(d: &mut Dice<'_>, allow_doc: bool) -> String {
    let w = COMMENT_WORDS[d.below(COMMENT_WORDS.len())];
    match d.below(if allow_doc { 3 } else { 2 }) {
        0 => format!("//{}\n", w.replace('\n', " ")),
        1 => format!("/*{}*/", w.replace("*/", "* /")),
        _ => format!("///{}\n", w.replace('\n', " ")),
    }
}

/// A gap between two lexemes: whitespace and comments; `must_separate` forces a separator.
pub fn gap(d: &mut Dice<'_>, must_separate: bool, left_is_slash: bool, comments: bool, allow_doc: bool) -> String {
    let mut s = String::new();
    let n = d.below(4);
    if n == 0 && !must_separate {
        return s;
    }
    for k in 0..n.max(1) {
        match d.below(if comments { 7 } else { 4 }) {
            0 | 1 => s.push(' '),
            2 => s.push('\n'),
            // (the grammar language's white space is blank, tab, CR, LF and form feed)
            3 => s.push_str(["  ", "\t", "\n\n", "\r\n", " \n  ", "\x0c", "\n\x0c\n", "\r"][d.below(8)]),
            _ => {
                if k == 0 && left_is_slash {
                    s.push(' ');
                }
                s.push_str(&comment(d, allow_doc));
            }
        }
    }
    if must_separate && s.is_empty() {
        s.push(' ');
    }
    s
}

/// Random legal layout of a grammar.
pub fn layout(g: &Grammar, d: &mut Dice<'_>, comments: bool) -> Printed {
    layout_with(g, d, comments, false)
}

/// `plain_comments`: comments only where the formatter's placement does not depend on the
/// bytes in front of them (known finding K9): at most one per gap, never at the start of the
/// text and never directly after `:`, `(` or `[`.
pub fn layout_with(g: &Grammar, d: &mut Dice<'_>, comments: bool, plain_comments: bool) -> Printed {
    let ll = lex_list(g);
    let n = ll.lexes.len();
    let mut gaps = vec![String::new(); n + 1];
    for i in 0..=n {
        let (left, right) = (if i > 0 { Some(ll.lexes[i - 1].text.as_str()) } else { None }, ll.lexes.get(i).map(|l| l.text.as_str()));
        let must = match (left, right) {
            (Some(l), Some(r)) => !can_fuse(l, r),
            _ => false,
        };
        let mut s = if plain_comments {
            let ws = gap(d, must, false, false, false);
            if comments && !matches!(left, None | Some(":") | Some("(") | Some("[")) && d.chance(1, 4) {
                let c = comment(d, true);
                let sep = if left == Some("/") || d.chance(1, 2) { " " } else { "" };
                format!("{sep}{c}{ws}")
            } else {
                ws
            }
        } else {
            gap(d, must, left == Some("/"), comments, true)
        };
        // a comment that swallows the rest of the line must not end the text without newline;
        // a gap made only of a block comment between two words still separates them
        if must && !s.chars().any(|c| c.is_whitespace()) && !s.contains("*/") {
            s.push(' ');
        }
        gaps[i] = s;
    }
    join(&ll, &gaps)
}

/// Does the text contain a comment in one of the placements of known finding K9 (at the start
/// of the text, directly after `:`, `(`, `[`, or directly after another comment)?
pub fn k9_shape(text: &str) -> bool {
    let lex = split(text);
    let mut prev: Option<(LexKind, &str)> = None;
    for l in &lex {
        if l.kind == LexKind::Ws {
            continue;
        }
        let t = &text[l.start..l.end];
        if matches!(l.kind, LexKind::LineComment | LexKind::DocComment | LexKind::BlockComment) {
            match prev {
                None => return true,
                Some((LexKind::LineComment | LexKind::DocComment | LexKind::BlockComment, _)) => return true,
                Some((LexKind::Punct, ":" | "(" | "[")) => return true,
                _ => {}
            }
        }
        prev = Some((l.kind, t));
    }
    false
}

/// the lexical items of the grammar language used for bounded-exhaustive text enumeration
pub const ITEMS: &[&str] = &[
    "token", "start", "right", "skip", "part", ":", ";", "=", "(", ")", "[", "]", "|", "*", "+", "^", "~", "&", "/", "a", "B", "r_1", "'x'", "''", "'\\''", "'\\q'", "'\\é'", "'é'", "'a b'", "'unterminated", "?1", "?t", "#1", "!1", "@a", "@", "<1", "1>a", ">", "1>", ">a",
    "//c\n", "//c", "///d\n", "/*b*/", "/***/", "/*", " ", "\n", "$", "é", "😀", "?", "#", "<", "!", "\\",
];

/// token-level mutation of a text (delete / duplicate / insert / swap / truncate)
pub fn mutate_text(text: &str, d: &mut Dice<'_>) -> String {
    let lex = split(text);
    if lex.is_empty() {
        return ITEMS[d.below(ITEMS.len())].to_string();
    }
    let mut parts: Vec<String> = lex.iter().map(|l| text[l.start..l.end].to_string()).collect();
    let n_edits = 1 + d.below(3);
    for _ in 0..n_edits {
        if parts.is_empty() {
            break;
        }
        let i = d.below(parts.len());
        match d.below(6) {
            0 => {
                parts.remove(i);
            }
            1 => {
                let x = parts[i].clone();
                parts.insert(i, x);
            }
            2 => parts.insert(i, ITEMS[d.below(ITEMS.len())].to_string()),
            3 => {
                let j = d.below(parts.len());
                parts.swap(i, j);
            }
            4 => parts.truncate(i),
            _ => parts[i] = ITEMS[d.below(ITEMS.len())].to_string(),
        }
    }
    parts.concat()
}

/// every `.llw` file of the repository
pub fn repo_texts() -> Vec<(String, String)> {
    let mut out = vec![];
    let mut stack = vec![crate::ev::repo().join("examples"), crate::ev::repo().join("tests/frontend"), crate::ev::repo().join("src/frontend")];
    while let Some(p) = stack.pop() {
        if let Ok(rd) = std::fs::read_dir(&p) {
            let mut es: Vec<_> = rd.flatten().map(|e| e.path()).collect();
            es.sort();
            for e in es {
                if e.is_dir() {
                    if e.file_name().is_some_and(|n| n != "target") {
                        stack.push(e);
                    }
                } else if e.extension().is_some_and(|x| x == "llw") {
                    if let Ok(t) = std::fs::read_to_string(&e) {
                        out.push((e.display().to_string(), t));
                    }
                }
            }
        }
    }
    out.sort();
    out
}

/// soup of grammar fragments, ASCII and multi-byte characters
pub fn soup(d: &mut Dice<'_>, max_items: usize) -> String {
    let n = d.below(max_items + 1);
    let mut s = String::new();
    for _ in 0..n {
        match d.below(10) {
            0..=5 => s.push_str(ITEMS[d.below(ITEMS.len())]),
            6 => s.push(char::from_u32(0x20 + d.below(0x5f) as u32).unwrap()),
            7 => s.push(['é', 'ß', '😀', '\u{0301}', '\u{2028}', '\u{feff}', '\u{0}', '\u{7f}'][d.below(8)]),
            8 => s.push_str(["token A B;", "start s;", "s: A | B;", "s: (A", "s: [A", "e: e '+' e | N;", "'\\", "/*", "//"][d.below(9)]),
            _ => s.push(' '),
        }
    }
    s
}

/// deepest bracket nesting of a text (byte scan; strings and comments are not excluded, so this
/// is an upper bound). lelwel's front end is recursive descent: texts nested deeper than a few
/// hundred levels are evaluated in a child process (see c12::deep_text_check).
pub fn max_nesting(text: &str) -> usize {
    let (mut d, mut m) = (0usize, 0usize);
    for b in text.bytes() {
        match b {
            b'(' | b'[' => {
                d += 1;
                m = m.max(d);
            }
            b')' | b']' => d = d.saturating_sub(1),
            _ => {}
        }
    }
    m
}
