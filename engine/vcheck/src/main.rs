use vcore::checks::{self, Ctx};
use vcore::ev::{self, Tier};

fn main() {
    let args: Vec<String> = std::env::args().collect();
    if args.len() < 3 {
        eprintln!("usage: vcheck <ID> <quick|thorough> | vcheck <ID> --replay <file>");
        std::process::exit(2);
    }
    let id = args[1].clone();
    if id == "dump" {
        let text = std::fs::read_to_string(&args[2]).unwrap();
        let g = vcore::lw::import(&text).expect("import failed");
        let a = vcore::alab::analyse(&g).unwrap();
        println!("{}", a.printed.text);
        for d in &a.run.diags {
            println!("diag {:?} {} {:?}", d.code, d.message, d.primary());
        }
        for (id, n) in a.flat.nodes.iter().enumerate() {
            let span = a.printed.spans[id];
            let mut f = a.names(&g, &a.sets.first[id]);
            if a.sets.nullable[id] { f.insert("eps".into()); }
            println!("#{id} {:?} `{}`\n   ref first={:?} follow={:?}\n   lw  {:?}", n.kind, vcore::alab::node_text(&a, id), f, a.names(&g, &a.sets.follow[id]), a.run.sets.get(&span));
        }
        return;
    }
    let (tier, replay) = if args[2] == "--replay" {
        (Tier::Quick, Some(std::path::PathBuf::from(&args[3])))
    } else if args[2] == "thorough" {
        (Tier::Thorough, None)
    } else {
        (Tier::Quick, None)
    };
    let threads = std::env::var("VERIF_THREADS").ok().and_then(|s| s.parse().ok()).unwrap_or(16);
    let ctx = Ctx { tier, seed: ev::seed_from_env(), replay, threads };
    vcore::lw::quiet_panics();
    let code = checks::run(&id, &ctx);
    std::process::exit(code);
}
