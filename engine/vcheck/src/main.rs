fn main() { vcore::hello(); }
