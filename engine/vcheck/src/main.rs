use vcore::checks::{self, Ctx};
use vcore::ev::{self, Tier};

fn main() {
    let args: Vec<String> = std::env::args().collect();
    if args.len() < 3 {
        eprintln!("usage: vcheck <ID> <quick|thorough> | vcheck <ID> --replay <file>");
        std::process::exit(2);
    }
    let id = args[1].clone();
    if id == "build-helper" {
        // stands in for a user's build.rs: lelwel::build reads OUT_DIR
        lelwel::build(&args[2]);
        return;
    }
    if id == "lab" {
        // debug: run the request of a lab replay file and print the raw reply
        let v: serde_json::Value = serde_json::from_str(&std::fs::read_to_string(&args[2]).unwrap()).unwrap();
        let text = v["replay"]["grammar"].as_str().unwrap();
        let g = vcore::lw::import(text).expect("import");
        let req = vcore::labrun::req_from_json(&g, &v["replay"]["request"]).unwrap();
        let mut b = vcore::lab::build_batch(&[(g.clone(), vcore::gm::print(&g).text)], &Default::default());
        println!("{:?}", b.states[0]);
        let rep = b.run(&req);
        println!("status {:?}\ntree {}\ndiags {:?}\nflat {:?}", rep.status, rep.tree.as_ref().map(|t| t.dump()).unwrap_or_default(), rep.diags, rep.flat);
        for e in &rep.log {
            println!("  {e:?}");
        }
        return;
    }
    if id == "gen" {
        // debug: print generated grammars of a profile with lelwel's verdict
        let mut profs = vcore::checks::c01::all_profiles();
        profs.extend(vcore::checks::c04::profiles04());
        let prof = profs.iter().find(|p| p.name == args[2]).cloned().unwrap_or_else(|| vcore::ggen::Profile::full());
        let n: usize = args[3].parse().unwrap();
        let mut runner = vcore::dice::runner(ev::seed_from_env(), 1);
        let trees = vcore::dice::draw_trees(&mut runner, 500, n);
        let mut stats = std::collections::BTreeMap::new();
        for t in trees {
            use proptest::strategy::ValueTree;
            let g = vcore::ggen::build(&prof, &t.current());
            let text = vcore::gm::print(&g).text;
            let (d, _) = vcore::lw::diagnostics(&text);
            let errs: Vec<String> = d.iter().filter(|x| x.error).map(|x| format!("{}@{:?}", x.code.clone().unwrap_or_default(), x.primary())).collect();
            let key = errs.first().map(|e| e[..4.min(e.len())].to_string()).unwrap_or("ok".into());
            *stats.entry(key.clone()).or_insert(0) += 1;
            let unprod = !vcore::refan::productive_rules(&g).iter().all(|b| *b);
            if args.len() > 4 && (args[4] == "all" || key.starts_with(&args[4]) || (args[4] == "unprod" && unprod)) {
                println!("---- {errs:?} unprod={unprod}\n{text}");
            }
        }
        println!("{stats:?}");
        return;
    }
    if id == "dump" {
        let text = std::fs::read_to_string(&args[2]).unwrap();
        let g = vcore::lw::import(&text).expect("import failed");
        let a = vcore::alab::analyse(&g).unwrap();
        println!("{}", a.printed.text);
        for d in &a.run.diags {
            println!("diag {:?} {} {:?}", d.code, d.message, d.primary());
        }
        for (id, n) in a.flat.nodes.iter().enumerate() {
            let span = a.printed.spans[id];
            let mut f = a.names(&g, &a.sets.first[id]);
            if a.sets.nullable[id] { f.insert("eps".into()); }
            println!("#{id} {:?} `{}`\n   ref first={:?} follow={:?}\n   lw  {:?}", n.kind, vcore::alab::node_text(&a, id), f, a.names(&g, &a.sets.follow[id]), a.run.sets.get(&span));
        }
        return;
    }
    let (tier, replay) = if args[2] == "--replay" {
        (Tier::Quick, Some(std::path::PathBuf::from(&args[3])))
    } else if args[2] == "thorough" {
        (Tier::Thorough, None)
    } else {
        (Tier::Quick, None)
    };
    let threads = std::env::var("VERIF_THREADS").ok().and_then(|s| s.parse().ok()).unwrap_or(16);
    if replay.is_some() {
        ev::REPLAY_MODE.store(true, std::sync::atomic::Ordering::Relaxed);
    }
    let ctx = Ctx { tier, seed: ev::seed_from_env(), replay, threads };
    vcore::lw::quiet_panics();
    // time budget: exceeding it is "inconclusive", never a violation
    let budget: u64 = std::env::var("VERIF_TIME_BUDGET_S").ok().and_then(|s| s.parse().ok()).unwrap_or(if tier == Tier::Quick { 840 } else { 6 * 3600 });
    std::thread::spawn(move || {
        std::thread::sleep(std::time::Duration::from_secs(budget));
        eprintln!("inconclusive: time budget of {budget} s exceeded");
        let _ = std::process::Command::new("pkill").args(["-P", &std::process::id().to_string()]).status();
        std::process::exit(2);
    });
    let res = std::panic::catch_unwind(|| checks::run(&id, &ctx));
    match res {
        Ok(code) => std::process::exit(code),
        Err(_) => {
            let msg = vcore::lw::LAST_PANIC_GLOBAL.lock().ok().and_then(|g| g.clone()).unwrap_or_default();
            eprintln!("inconclusive: harness error: {msg}");
            std::process::exit(2);
        }
    }
}
