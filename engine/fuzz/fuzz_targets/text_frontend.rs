#![no_main]
//! Coverage-guided companion of C12 / C17: any UTF-8 text through lexer, parser, semantic pass
//! and formatter with the same oracles as the proptest checks (no panic, valid label ranges,
//! rendering, lossless front-end CST, formatting preserves the non-whitespace characters).
use libfuzzer_sys::fuzz_target;
use vcore::ev::{Evidence, Tier};

fuzz_target!(|data: &[u8]| {
    let Ok(text) = std::str::from_utf8(data) else { return };
    if text.len() > 4096 {
        return;
    }
    let mut ev = Evidence::new("C12", Tier::Thorough, 0, "");
    if let Err(v) = vcore::checks::c12::check_text(text, &mut ev, "libfuzzer") {
        panic!("C12 VIOLATION {}: {}", v.sig, v.what);
    }
    let mut ev = Evidence::new("C17", Tier::Thorough, 0, "");
    if let Err(v) = vcore::checks::c17::check_valid(text, &mut ev, "libfuzzer") {
        panic!("C17 VIOLATION {}: {}", v.sig, v.what);
    }
});
