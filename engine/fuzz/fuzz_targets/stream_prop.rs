#![no_main]
//! Coverage-guided driver of the structured generators: the fuzz input is a choice stream
//! (little-endian u32s); the property is selected by VFUZZ_PROP (C09, C10, C13, C14, C17, C18,
//! C20). The oracle is the one of the proptest stage (`checks::stream_case`); a violation that
//! is not a listed finding panics, which libFuzzer saves as an artifact.
use libfuzzer_sys::fuzz_target;
use std::sync::OnceLock;
use vcore::ev::{Evidence, Findings, Tier};

static PROP: OnceLock<String> = OnceLock::new();
static KNOWN: OnceLock<Findings> = OnceLock::new();

fuzz_target!(|data: &[u8]| {
    let id = PROP.get_or_init(|| std::env::var("VFUZZ_PROP").unwrap_or_else(|_| "C09".to_string()));
    let known = KNOWN.get_or_init(Findings::load);
    let stream = vcore::fuzzstage::decode(data);
    let mut ev = Evidence::new(id, Tier::Thorough, 0, "");
    if let Err(v) = vcore::checks::stream_case(id, &stream, &mut ev) {
        if known.known(id, &v.sig).is_none() {
            panic!("{id} VIOLATION {}: {}", v.sig, v.what);
        }
    }
});
