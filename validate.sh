#!/bin/sh
# validate MANIFEST.json and all evidence files against the schemas
python3-vt - <<'PY'
import json,jsonschema,glob
jsonschema.validate(json.load(open('/verif/MANIFEST.json')),json.load(open('/root/.vp/MANIFEST.schema.json')));print('manifest ok')
s=json.load(open('/root/.vp/EVIDENCE.schema.json'))
for f in sorted(f for f in glob.glob('/verif/evidence/*.json') if not f.endswith('.replay.json')):
    jsonschema.validate(json.load(open(f)),s);print(f,'ok')
PY
